use owlchess::verif_hooks as h;
use owlchess::Coord;
fn main() {
    let mut bad_b = 0; let mut bad_r = 0; let mut ex = None;
    for a in 0..64usize { for b in 0..64usize {
        let (ca, cb) = (Coord::from_index(a), Coord::from_index(b));
        let (fa, ra, fb, rb) = ((a%8) as i32, (a/8) as i32, (b%8) as i32, (b/8) as i32);
        let diag = a != b && (fa-fb).abs() == (ra-rb).abs();
        let line = a != b && (fa == fb || ra == rb);
        if !diag && h::between_bishop_strict(ca, cb).is_nonempty() { bad_b += 1; if ex.is_none() { ex = Some((a,b,h::between_bishop_strict(ca, cb))); } }
        if !line && h::between_rook_strict(ca, cb).is_nonempty() { bad_r += 1; }
    }}
    println!("nonaligned nonempty: bishop {} rook {} example {:?}", bad_b, bad_r, ex);
}
