//! Move-chain sessions (C02, C13, C14, C17): push / pop / outcome / walker / printing.
use crate::proj::*;
use crate::query::Ctx;
use crate::session::state_json;
use owlchess::board::Board;
use owlchess::chain::{BaseMoveChain, GameStatusPolicy, HashRepeat, NumberPolicy, Repeat};
use owlchess::movegen::{legal, semilegal};
use owlchess::moves::{make, san, uci, Move, MoveKind, Style};
use owlchess::types::{Color, DrawReason, Outcome, OutcomeFilter, WinReason};
use rand::rngs::StdRng;
use rand::seq::SliceRandom;
use rand::Rng;
use serde_json::{json, Value};
use std::cell::RefCell;
use std::str::FromStr;

thread_local! {
    static COUNTS: RefCell<Vec<usize>> = RefCell::new(Vec::new());
}

/// Repetition table that wraps the real `HashRepeat` and records what `count` returned.
#[derive(Default, Debug, Clone)]
pub struct Spy(HashRepeat);

impl Repeat for Spy {
    fn push(&mut self, b: &Board) {
        self.0.push(b)
    }
    fn pop(&mut self, b: &Board) {
        self.0.pop(b)
    }
    fn count(&self, b: &Board) -> usize {
        let n = self.0.count(b);
        COUNTS.with(|c| c.borrow_mut().push(n));
        n
    }
}

pub type Chain = BaseMoveChain<Spy>;

fn take_counts() -> Vec<usize> {
    COUNTS.with(|c| std::mem::take(&mut *c.borrow_mut()))
}

pub fn outcome_from_json(v: &Value) -> Option<Outcome> {
    let a = v.as_array().unwrap();
    match a[0].as_str().unwrap() {
        "none" => None,
        "win" => {
            let side = color_of(a[1].as_u64().unwrap());
            let reason = match a[2].as_str().unwrap() {
                "checkmate" => WinReason::Checkmate,
                "timeforfeit" => WinReason::TimeForfeit,
                "invalidmove" => WinReason::InvalidMove,
                "engineerror" => WinReason::EngineError,
                "resign" => WinReason::Resign,
                "abandon" => WinReason::Abandon,
                _ => WinReason::Unknown,
            };
            Some(Outcome::Win { side, reason })
        }
        _ => Some(Outcome::Draw(match a[1].as_str().unwrap() {
            "stalemate" => DrawReason::Stalemate,
            "insufficient" => DrawReason::InsufficientMaterial,
            "moves75" => DrawReason::Moves75,
            "repeat5" => DrawReason::Repeat5,
            "moves50" => DrawReason::Moves50,
            "repeat3" => DrawReason::Repeat3,
            "agreement" => DrawReason::Agreement,
            _ => DrawReason::Unknown,
        })),
    }
}

fn text_of(v: &Value) -> String {
    v.as_array().unwrap().iter().map(|c| char::from_u32(c.as_u64().unwrap() as u32).unwrap()).collect()
}

/// Everything observable about a chain.
pub fn obs_json(c: &Chain) -> Value {
    let b = c.last();
    let reval = match Board::try_from(*b.raw()) {
        Ok(b2) => state_json(&b2) == state_json(b),
        Err(_) => false,
    };
    let moves: Vec<Move> = c.iter().collect();
    let by_get: Vec<Move> = (0..c.len()).map(|i| c.get(i)).collect();
    json!({
        "len": c.len(),
        "empty": c.is_empty(),
        "moves": mvs_json(&moves),
        "moves_by_get": mvs_json(&by_get),
        "last": state_json(b),
        "start": raw_json(c.startpos()),
        "outcome": outcome_json(c.outcome()),
        "finished": c.is_finished(),
        "revalid": reval,
        "mover_in_check": b.is_opponent_king_attacked(),
    })
}

fn filter_of(s: &str) -> OutcomeFilter {
    match s {
        "force" => OutcomeFilter::Force,
        "strict" => OutcomeFilter::Strict,
        _ => OutcomeFilter::Relaxed,
    }
}

fn style_of(s: &str) -> Style {
    match s {
        "uci" => Style::Uci,
        "san" => Style::San,
        _ => Style::SanUtf8,
    }
}

fn catch_res<T, F: FnOnce() -> T>(f: F) -> Result<T, ()> {
    std::panic::catch_unwind(std::panic::AssertUnwindSafe(f)).map_err(|_| ())
}

/// Executes one operation (a JSON value describing it) and returns the event.
pub fn exec(c: &mut Option<Chain>, op: &Value) -> Value {
    let name = op["op"].as_str().unwrap();
    let mut ev = op.clone();
    let o = ev.as_object_mut().unwrap();
    o.insert("ev".into(), json!(format!("c_{}", name)));
    if name == "new" {
        let b = Board::try_from(raw_from_json(&op["pos"])).expect("valid start");
        *c = Some(Chain::new(b));
        o.insert("obs".into(), obs_json(c.as_ref().unwrap()));
        return ev;
    }
    let ch = c.as_mut().unwrap();
    take_counts();
    match name {
        "push" => {
            let like = &op["like"];
            let t = like["t"].as_str().unwrap();
            let r: Result<Result<(), String>, ()> = catch_res(|| match t {
                "move" => {
                    let a = like["m"].as_array().unwrap();
                    let m = if a[0].as_u64().unwrap() == 0 { Some(Move::NULL) } else { mv_from_json(&like["m"]) };
                    match m {
                        Some(m) => ch.push(m).map_err(|e| e.to_string()),
                        None => Err("harness: not constructible".into()),
                    }
                }
                "try" => {
                    // TryUnchecked: contract = a legal move, or the null move when not in check (the generator
                    // only produces such values)
                    let a = like["m"].as_array().unwrap();
                    let m = if a[0].as_u64().unwrap() == 0 { Move::NULL } else { mv_from_json(&like["m"]).unwrap() };
                    ch.push(unsafe { make::TryUnchecked::new(m) }).map_err(|e| e.to_string())
                }
                "uci" => ch.push(make::Uci(text_of(&like["text"]))).map_err(|e| e.to_string()),
                "ucimove" => match uci::Move::from_str(&text_of(&like["text"])) {
                    Ok(u) => ch.push(u).map_err(|e| e.to_string()),
                    Err(e) => Err(format!("parse: {e}")),
                },
                "san" => ch.push(make::San(text_of(&like["text"]))).map_err(|e| e.to_string()),
                "sanmove" => match san::Move::from_str(&text_of(&like["text"])) {
                    Ok(s) => ch.push(s).map_err(|e| e.to_string()),
                    Err(e) => Err(format!("parse: {e}")),
                },
                _ => panic!("bad like"),
            });
            match r {
                Ok(Ok(())) => {
                    o.insert("res".into(), json!("ok"));
                    o.insert("m".into(), mv_json(ch.get(ch.len() - 1)));
                }
                Ok(Err(e)) => {
                    o.insert("res".into(), json!("err"));
                    o.insert("err".into(), json!(e));
                }
                Err(()) => {
                    o.insert("res".into(), json!("panic"));
                }
            }
        }
        "pushlist" => {
            let text = text_of(&op["text"]);
            let before = ch.len();
            match catch_res(|| ch.push_uci_list(&text)) {
                Ok(Ok(())) => {
                    o.insert("res".into(), json!("ok"));
                }
                Ok(Err(e)) => {
                    o.insert("res".into(), json!("err"));
                    o.insert("errpos".into(), json!(e.pos));
                    o.insert("err".into(), json!(e.to_string()));
                }
                Err(()) => {
                    o.insert("res".into(), json!("panic"));
                }
            }
            o.insert("pushed".into(), json!(ch.len() - before));
        }
        "pop" => match ch.pop() {
            Some(m) => {
                o.insert("res".into(), json!("some"));
                o.insert("m".into(), mv_json(m));
            }
            None => {
                o.insert("res".into(), json!("none"));
            }
        },
        "set_outcome" => {
            let oc = outcome_from_json(&op["o"]).unwrap();
            ch.set_outcome(oc);
        }
        "clear_outcome" => ch.clear_outcome(),
        "reset_outcome" => ch.reset_outcome(outcome_from_json(&op["o"])),
        "calc" => {
            let r = ch.calc_outcome();
            o.insert("res".into(), outcome_json(&r));
            o.insert("rep".into(), json!(take_counts()));
            o.insert("board_outcome".into(), outcome_json(&ch.last().calc_outcome()));
        }
        "set_auto" => {
            let f = filter_of(op["filter"].as_str().unwrap());
            let r = ch.set_auto_outcome(f);
            o.insert("res".into(), outcome_json(&r));
            o.insert("rep".into(), json!(take_counts()));
        }
        "walk" => {
            let mut steps = Vec::new();
            let before = obs_json(ch);
            {
                let mut w = ch.walk();
                for st in op["steps"].as_array().unwrap() {
                    let s = st.as_str().unwrap();
                    let res = match s {
                        "next" => w.next().map(|(b, m)| json!({"state": state_json(b), "m": mv_json(m)})),
                        "prev" => w.prev().map(|(b, m)| json!({"state": state_json(b), "m": mv_json(m)})),
                        "start" => {
                            w.start();
                            None
                        }
                        _ => {
                            w.end();
                            None
                        }
                    };
                    let mut e = json!({"op": s, "wpos": w.pos(), "wlen": w.len()});
                    match res {
                        Some(r) => {
                            e["some"] = json!(true);
                            e["state"] = r["state"].clone();
                            e["m"] = r["m"].clone();
                        }
                        None => {
                            e["some"] = json!(false);
                        }
                    }
                    steps.push(e);
                }
            }
            o.insert("results".into(), Value::Array(steps));
            o.insert("chain_untouched".into(), json!(before == obs_json(ch)));
        }
        "text" => {
            let u = ch.uci().to_string();
            o.insert("uci".into(), text_json(&u));
            // replaying the UCI list from the start position rebuilds an equal chain (outcome aside)
            let start = Board::try_from(*ch.startpos()).expect("start valid");
            let rebuilt = Chain::from_uci_list(start, &u);
            let mut plain = ch.clone();
            plain.clear_outcome();
            o.insert(
                "uci_rebuilt".into(),
                match &rebuilt {
                    Ok(r) => json!({"ok": true, "eq": *r == plain, "last": raw_json(r.last().raw()),
                                     "moves": mvs_json(&r.iter().collect::<Vec<_>>())}),
                    Err(e) => json!({"ok": false, "err": e.to_string()}),
                },
            );
            let mut styled = Vec::new();
            for st in op["variants"].as_array().unwrap() {
                let nums = match st["nums"].as_str().unwrap() {
                    "omit" => NumberPolicy::Omit,
                    "board" => NumberPolicy::FromBoard,
                    _ => NumberPolicy::Custom(st["custom"].as_u64().unwrap() as usize),
                };
                let style = style_of(st["style"].as_str().unwrap());
                let status = if st["status"].as_bool().unwrap() { GameStatusPolicy::Show } else { GameStatusPolicy::Hide };
                let t = catch_res(|| ch.styled(nums, style, status).to_string());
                let mut e = st.clone();
                match t {
                    Ok(t) => e["text"] = text_json(&t),
                    Err(()) => e["panic"] = json!(true),
                }
                styled.push(e);
            }
            o.insert("styled".into(), Value::Array(styled));
        }
        "eq" => {
            // an independently rebuilt chain, and perturbed variants; the spec decides the expected verdict
            let start = Board::try_from(*ch.startpos()).expect("start valid");
            let moves: Vec<Move> = ch.iter().collect();
            let build = |st: &Board, ms: &[Move], oc: Option<Outcome>| -> Option<Chain> {
                let mut r = Chain::new(st.clone());
                for m in ms {
                    if r.push(*m).is_err() {
                        return None;
                    }
                }
                r.reset_outcome(oc);
                Some(r)
            };
            let mut vars = Vec::new();
            let mut add = |kind: &str, st: &Board, ms: &[Move], oc: Option<Outcome>| {
                if let Some(r) = build(st, ms, oc) {
                    vars.push(json!({"kind": kind, "start": raw_json(r.startpos()), "moves": mvs_json(ms),
                                     "outcome": outcome_json(&oc), "eq": *ch == r, "eq_rev": r == *ch}));
                }
            };
            add("same", &start, &moves, *ch.outcome());
            add("outcome_cleared", &start, &moves, None);
            add("outcome_other", &start, &moves, Some(Outcome::Draw(DrawReason::Agreement)));
            if !moves.is_empty() {
                add("shorter", &start, &moves[..moves.len() - 1], *ch.outcome());
            }
            // same moves from a start that differs only in a counter
            let mut r2 = *ch.startpos();
            r2.move_number = r2.move_number.wrapping_add(1).max(1);
            if let Ok(st2) = Board::try_from(r2) {
                add("start_counter", &st2, &moves, *ch.outcome());
            }
            // a different order of the first two own moves reaching the same position (transposition)
            if moves.len() >= 3 {
                let mut alt = moves.clone();
                alt.swap(0, 2);
                add("transposed", &start, &alt, *ch.outcome());
            }
            // last move replaced by another legal move
            if let Some(r) = build(&start, &moves[..moves.len().saturating_sub(1)], None) {
                if !moves.is_empty() {
                    let other: Vec<Move> = legal::gen_all(r.last()).iter().copied().filter(|m| *m != moves[moves.len() - 1]).collect();
                    if let Some(m) = other.first() {
                        let mut alt = moves.clone();
                        let n = alt.len();
                        alt[n - 1] = *m;
                        add("last_replaced", &start, &alt, *ch.outcome());
                    }
                }
            }
            o.insert("variants".into(), Value::Array(vars));
        }
        _ => panic!("unknown op {name}"),
    }
    o.insert("obs".into(), obs_json(c.as_ref().unwrap()));
    ev
}

// ------------------------------------------------------------------------------------------------
// random operation sequences
// ------------------------------------------------------------------------------------------------
fn mutate_text(rng: &mut StdRng, s: &str) -> String {
    let mut v: Vec<char> = s.chars().collect();
    let pool: Vec<char> = "abcdefgh12345678NBRQKOx=+#-0 é€😀:".chars().collect();
    match rng.gen_range(0..4) {
        0 if !v.is_empty() => {
            let i = rng.gen_range(0..v.len());
            v[i] = *pool.choose(rng).unwrap();
        }
        1 if !v.is_empty() => {
            let i = rng.gen_range(0..v.len());
            v.remove(i);
        }
        2 => {
            let i = rng.gen_range(0..=v.len());
            v.insert(i, *pool.choose(rng).unwrap());
        }
        _ => {
            let n = rng.gen_range(0..=v.len());
            v.truncate(n);
        }
    }
    v.into_iter().collect()
}

pub fn random_like(rng: &mut StdRng, ctx: &Ctx, b: &Board, with_san: bool, shuffle_prev: Option<Move>) -> Value {
    let legalv = legal::gen_all(b);
    let mut semi = Vec::new();
    semilegal::gen_all_into(b, &mut semi);
    let illegal: Vec<Move> = semi.iter().copied().filter(|m| !legalv.contains(m)).collect();
    let pick_legal = |rng: &mut StdRng| -> Option<Move> {
        if let Some(p) = shuffle_prev {
            // prefer undoing the previous own move (drives repetitions)
            let back = legalv.iter().copied().find(|m| m.src() == p.dst() && m.dst() == p.src() && m.kind() == MoveKind::Simple);
            if let Some(m) = back {
                if rng.gen_bool(0.7) {
                    return Some(m);
                }
            }
        }
        crate::posgen::pick_move(rng, b)
    };
    let encode = |rng: &mut StdRng, m: Move| -> Value {
        let k = if with_san { rng.gen_range(0..5) } else { rng.gen_range(0..3) };
        match k {
            0 => json!({"t": "move", "m": mv_json(m)}),
            1 => json!({"t": "uci", "text": text_json(&m.to_string())}),
            2 => json!({"t": "ucimove", "text": text_json(&m.to_string())}),
            3 => match m.san(b) {
                Ok(s) => json!({"t": "san", "text": text_json(&s.to_string())}),
                Err(_) => json!({"t": "san", "text": text_json(&m.to_string())}),
            },
            _ => match m.san(b) {
                Ok(s) => json!({"t": "sanmove", "text": text_json(&s.to_string())}),
                Err(_) => json!({"t": "sanmove", "text": text_json(&m.to_string())}),
            },
        }
    };
    match rng.gen_range(0..20) {
        0..=12 => match pick_legal(rng) {
            Some(m) => encode(rng, m),
            None => json!({"t": "move", "m": [0, 0, 0, 0]}),
        },
        13 | 14 => match illegal.choose(rng) {
            Some(m) => encode(rng, *m),
            None => json!({"t": "uci", "text": text_json("e1e1")}),
        },
        15 => {
            // a well-formed move that is (most probably) not semilegal here
            let side = b.side();
            let cand: Vec<&Move> = ctx.wf.iter().filter(|m| m.src_cell().color() == Some(side)).collect();
            let mut m = **cand.choose(rng).unwrap();
            if rng.gen_bool(0.4) {
                // a legal move with the colour of the moving man flipped (a stale value from the other side)
                if let Some(l) = legalv.iter().copied().filter(|l| l.kind() == MoveKind::Simple).collect::<Vec<_>>().choose(rng) {
                    let twin = ctx.wf.iter().find(|w| {
                        w.kind() == l.kind() && w.src() == l.src() && w.dst() == l.dst()
                            && w.src_cell().piece() == l.src_cell().piece() && w.src_cell().color() != l.src_cell().color()
                    });
                    if let Some(t) = twin {
                        m = *t;
                        return json!({"t": "move", "m": mv_json(m)});
                    }
                }
            }
            if rng.gen_bool(0.5) {
                json!({"t": "move", "m": mv_json(m)})
            } else {
                json!({"t": "uci", "text": text_json(&m.to_string())})
            }
        }
        16 => json!({"t": "move", "m": [0, 0, 0, 0]}),
        17 => json!({"t": (if rng.gen_bool(0.5) { "uci" } else { "ucimove" }), "text": text_json("0000")}),
        _ => {
            // garbage derived from a valid text
            let base = match pick_legal(rng) {
                Some(m) => {
                    if with_san && rng.gen_bool(0.5) {
                        m.san(b).map(|s| s.to_string()).unwrap_or_else(|_| m.to_string())
                    } else {
                        m.to_string()
                    }
                }
                None => "e2e4".to_string(),
            };
            let t = mutate_text(rng, &base);
            let kinds: &[&str] = if with_san { &["uci", "ucimove", "san", "sanmove"] } else { &["uci", "ucimove"] };
            json!({"t": kinds.choose(rng).unwrap(), "text": text_json(&t)})
        }
    }
}

fn random_outcome(rng: &mut StdRng) -> Value {
    let outs = [
        json!(["win", 0, "checkmate"]),
        json!(["win", 1, "checkmate"]),
        json!(["win", 0, "resign"]),
        json!(["win", 1, "timeforfeit"]),
        json!(["draw", "agreement"]),
        json!(["draw", "stalemate"]),
        json!(["draw", "repeat3"]),
        json!(["draw", "moves50"]),
        json!(["draw", "unknown"]),
    ];
    outs.choose(rng).unwrap().clone()
}

pub fn text_variants(rng: &mut StdRng, with_san: bool) -> Value {
    let mut v = Vec::new();
    let styles: &[&str] = if with_san { &["uci", "san", "sanutf8"] } else { &["uci"] };
    for nums in ["omit", "board", "custom"] {
        for style in styles {
            for status in [true, false] {
                let mut e = json!({"nums": nums, "style": style, "status": status});
                if nums == "custom" {
                    // small numbers, and numbers around / beyond the 16-bit range of the board's own counter
                    let c: u64 = match rng.gen_range(0..8) {
                        0 => 65534,
                        1 => 65535,
                        2 => 65536,
                        3 => 100000,
                        4 => 2_000_000_000,
                        5 => 0,
                        _ => rng.gen_range(0..2000),
                    };
                    e["custom"] = json!(c);
                }
                v.push(e);
            }
        }
    }
    Value::Array(v)
}

/// One random session; `profile` biases the mix: "mixed", "shuffle" (repetitions), "walk".
pub fn session(rng: &mut StdRng, ctx: &Ctx, start: &Board, nops: usize, profile: &str, with_san: bool) -> Vec<Value> {
    let mut evs = Vec::new();
    let mut c: Option<Chain> = None;
    // one start in five is handed over as an UN-normalised raw board (every right claimed, an e.p. mark on a
    // random file of the right rank): the chain must start from what validation makes of it
    let mut raw0 = *start.raw();
    if rng.gen_bool(0.2) {
        raw0.castling = owlchess::CastlingRights::FULL;
        if raw0.ep_source.is_none() {
            let rank = if raw0.side == owlchess::Color::White { 3 } else { 4 };
            raw0.ep_source = Some(owlchess::Coord::from_index(rank * 8 + rng.gen_range(0..8)));
        }
    }
    evs.push(exec(&mut c, &json!({"op": "new", "pos": raw_json(&raw0)})));
    let mut prev_own: Vec<Move> = Vec::new();
    while evs.len() < nops {
        let ch = c.as_ref().unwrap();
        let finished = ch.is_finished();
        let r = rng.gen_range(0..100);
        let op = if finished {
            match r {
                0..=39 => json!({"op": "clear_outcome"}),
                40..=59 => json!({"op": "pop"}),
                60..=69 => json!({"op": "reset_outcome", "o": (if rng.gen_bool(0.5) { random_outcome(rng) } else { json!(["none"]) })}),
                70..=79 => json!({"op": "calc"}),
                80..=89 => json!({"op": "eq"}),
                _ => json!({"op": "text", "variants": text_variants(rng, with_san && !ch.iter().any(|m| m == Move::NULL))}),
            }
        } else {
            let (p_push, p_pop) = match profile {
                "shuffle" => (78, 84),
                "walk" => (60, 66),
                _ => (62, 74),
            };
            if r < p_push && rng.gen_bool(0.06) {
                // a whitespace-separated list of one to three moves played out on a scratch board; the last token is
                // sometimes replaced by an illegal or malformed one (what was pushed before it stays)
                let mut b2 = ch.last().clone();
                let mut toks: Vec<String> = Vec::new();
                for _ in 0..rng.gen_range(1..4) {
                    match crate::posgen::pick_move(rng, &b2) {
                        Some(m) => {
                            toks.push(m.to_string());
                            b2 = b2.make_move(m).unwrap();
                        }
                        None => break,
                    }
                }
                match rng.gen_range(0..4) {
                    0 => toks.push("e1e1".into()),
                    1 => toks.push("zz99".into()),
                    _ => {}
                }
                let sep = *[" ", "  ", "\t", "\n", " \n "].choose(rng).unwrap();
                json!({"op": "pushlist", "text": text_json(&toks.join(sep))})
            } else if r < p_push && rng.gen_bool(0.08) {
                // a value of the unsafe-to-construct TryUnchecked kind, within its contract
                let m = if !ch.last().is_check() && rng.gen_bool(0.6) { Some(Move::NULL) } else { crate::posgen::pick_move(rng, ch.last()) };
                match m {
                    Some(m) => json!({"op": "push", "like": {"t": "try", "m": (if m == Move::NULL { json!([0, 0, 0, 0]) } else { mv_json(m) })}}),
                    None => json!({"op": "calc"}),
                }
            } else if r < p_push {
                let n = ch.len();
                let sp = if profile == "shuffle" && n >= 2 { prev_own.get(n - 2).copied() } else { None };
                json!({"op": "push", "like": random_like(rng, ctx, ch.last(), with_san, sp)})
            } else if r < p_pop {
                json!({"op": "pop"})
            } else {
                match rng.gen_range(0..14) {
                    0..=3 => json!({"op": "calc"}),
                    4 => json!({"op": "set_auto", "filter": "force"}),
                    5 => json!({"op": "set_auto", "filter": "strict"}),
                    6 => json!({"op": "set_auto", "filter": "relaxed"}),
                    7 => json!({"op": "set_outcome", "o": random_outcome(rng)}),
                    8 => json!({"op": "reset_outcome", "o": random_outcome(rng)}),
                    9 | 10 => {
                        let k = rng.gen_range(1..14);
                        let steps: Vec<&str> = (0..k)
                            .map(|_| *["next", "next", "next", "prev", "prev", "start", "end"].choose(rng).unwrap())
                            .collect();
                        json!({"op": "walk", "steps": steps})
                    }
                    11 => json!({"op": "eq"}),
                    _ => json!({"op": "text", "variants": text_variants(rng, with_san && !ch.iter().any(|m| m == Move::NULL))}),
                }
            }
        };
        let ev = exec(&mut c, &op);
        // keep prev_own in step with the chain
        let ch = c.as_ref().unwrap();
        prev_own = ch.iter().collect();
        evs.push(ev);
    }
    // the printed check / mate mark of the last move must come from the position, not from the stored outcome
    let has_null = c.as_ref().unwrap().iter().any(|m| m == Move::NULL);
    let with_san = with_san && !has_null;     // a null move has no SAN spelling (styled(San) panics on it by design)
    if with_san {
        let ch = c.as_ref().unwrap();
        if ch.len() >= 1 && ch.last().is_check() {
            let mover = ch.last().side().inv();
            for o in [json!(["win", color_ix(mover), "checkmate"]), json!(["draw", "stalemate"]), json!(["none"])] {
                evs.push(exec(&mut c, &json!({"op": "reset_outcome", "o": o})));
                evs.push(exec(&mut c, &json!({"op": "text", "variants": [{"nums": "board", "style": "san", "status": true},
                                                                          {"nums": "omit", "style": "sanutf8", "status": false}]})));
            }
        }
    }
    // closing observations
    for op in [json!({"op": "calc"}), json!({"op": "walk", "steps": ["end", "prev", "prev", "start", "next", "next", "end", "prev"]}),
               json!({"op": "eq"}), json!({"op": "text", "variants": text_variants(rng, with_san)})] {
        evs.push(exec(&mut c, &op));
    }
    let _ = Color::White;
    evs
}

/// Long games with promotions at chosen plies, printed as a UCI list: sweeps the ALIGNMENT of the 5-character
/// promotion tokens against every other token (text-length dependent defects of the printer).
pub fn ucilist_sweep(max_ply: usize) -> Vec<Value> {
    let mut out = Vec::new();
    let start = Board::from_fen("8/PPPPPPPP/8/7k/8/8/8/K7 w - - 0 1").unwrap();
    let mut first = 1;
    while first < max_ply {
        let mut second = first + 2;
        while second <= max_ply {
            let r = std::panic::catch_unwind(|| {
                let mut c = Chain::new(start.clone());
                let mut promoted = 0usize;
                for ply in 1..=(second + 2) {
                    let b = c.last().clone();
                    let lg = legal::gen_all(&b);
                    let want_promo = ply % 2 == 1 && (ply == first || ply == second);
                    let m = if want_promo {
                        lg.iter().copied().find(|m| m.kind() == MoveKind::PromoteKnight && m.src().file().index() == promoted)
                    } else {
                        // a quiet king step (never a capture, never leaving the shuffling area)
                        lg.iter().copied().find(|m| m.src_cell().piece() == Some(owlchess::types::Piece::King) && b.get(m.dst()).is_free())
                    };
                    let m = match m {
                        Some(m) => m,
                        None => break,
                    };
                    if want_promo {
                        promoted += 1;
                    }
                    if c.push(m).is_err() {
                        break;
                    }
                }
                let t = c.uci().to_string();
                let eq = Chain::from_uci_list(start.clone(), &t).map(|x| x == c).unwrap_or(false);
                (c.iter().collect::<Vec<_>>(), t, eq)
            });
            match r {
                Ok((moves, t, eq)) => out.push(json!({"ev": "ucilist", "first": first, "second": second, "moves": mvs_json(&moves),
                                                      "text": text_json(&t), "rebuilt_eq": eq})),
                Err(_) => out.push(json!({"ev": "ucilist", "first": first, "second": second, "moves": [], "panic": true})),
            }
            second += 2;
        }
        first += 2;
    }
    out
}

/// Engine S2I: executes a behaviour generated by TLC from the system specification and compares the
/// abstract state the model expects (current position, chain length) after every action.
pub fn exec_script(script: &Value) -> Vec<Value> {
    let mut c: Option<Chain> = None;
    let mut out = Vec::new();
    out.push(exec(&mut c, &json!({"op": "new", "pos": script["start"]})));
    let ops = script["ops"].as_array().unwrap();
    for op in ops {
        let mut ev = exec(&mut c, op);
        if !op["expect"].is_null() {
            let ex = &op["expect"];
            let ok = ev["obs"]["last"]["pos"] == ex["pos"] && ev["obs"]["len"] == ex["len"]
                && (ex["res"].is_null() || ev["res"] == ex["res"]);
            ev["s2i_match"] = json!(ok);
            ev.as_object_mut().unwrap().remove("expect");
        }
        out.push(ev);
    }
    out
}

/// Re-executes the operations embedded in recorded events.
pub fn reexec(events: &[Value]) -> Vec<Value> {
    let mut c: Option<Chain> = None;
    let mut out = Vec::new();
    for e in events {
        let name = e["ev"].as_str().unwrap().trim_start_matches("c_").to_string();
        let mut op = json!({"op": name});
        for k in ["pos", "like", "o", "filter", "steps", "variants"] {
            if !e[k].is_null() {
                op[k] = e[k].clone();
            }
        }
        out.push(exec(&mut c, &op));
    }
    out
}
