mod posgen;
mod proj;
mod chain;
mod misc;
mod notation;
mod query;
mod session;

use rand::rngs::StdRng;
use rand::SeedableRng;
use serde_json::{json, Value};
use std::fs::File;
use std::io::{BufWriter, Write};
use std::path::{Path, PathBuf};

/// Writes events into shards of at most `cap` lines: <dir>/shard_<k>.ndjson
pub struct Sink {
    dir: PathBuf,
    cap: usize,
    k: usize,
    n: usize,
    total: usize,
    w: Option<BufWriter<File>>,
    wal: PathBuf,
}

impl Sink {
    pub fn new(dir: &Path, cap: usize) -> Sink {
        std::fs::create_dir_all(dir).unwrap();
        let wal = dir.join("wal.json");
        // until the first explicit begin(): a death of the process happened while inputs were generated
        // (playouts, placements, mutations all call into the library)
        std::fs::write(&wal, json!({"phase": "input generation (playouts / placements / mutations)"}).to_string()).unwrap();
        Sink { dir: dir.to_path_buf(), cap, k: 0, n: 0, total: 0, w: None, wal }
    }

    /// Write-ahead note: the input about to be handed to the library.  If the process dies
    /// (non-unwinding panic / abort), the orchestrator reports this input.
    pub fn begin(&mut self, what: &Value) {
        std::fs::write(&self.wal, what.to_string()).unwrap();
    }

    pub fn done(&mut self) {
        let _ = std::fs::remove_file(&self.wal);
    }

    pub fn emit(&mut self, ev: &Value) {
        if self.w.is_none() || self.n >= self.cap {
            self.rotate();
        }
        let w = self.w.as_mut().unwrap();
        writeln!(w, "{}", ev).unwrap();
        self.n += 1;
        self.total += 1;
    }

    /// Start a new shard now (sessions must not straddle shards).
    pub fn rotate(&mut self) {
        if let Some(mut w) = self.w.take() {
            w.flush().unwrap();
        }
        let p = self.dir.join(format!("shard_{:04}.ndjson", self.k));
        self.k += 1;
        self.n = 0;
        self.w = Some(BufWriter::new(File::create(p).unwrap()));
    }

    pub fn room(&self) -> usize {
        if self.w.is_none() { self.cap } else { self.cap.saturating_sub(self.n) }
    }

    pub fn finish(mut self) -> usize {
        if let Some(mut w) = self.w.take() {
            w.flush().unwrap();
        }
        self.done();
        self.total
    }
}

fn catch<F: FnOnce() -> Value + std::panic::UnwindSafe>(f: F) -> Value {
    match std::panic::catch_unwind(f) {
        Ok(v) => v,
        Err(e) => {
            let msg = if let Some(s) = e.downcast_ref::<&str>() {
                s.to_string()
            } else if let Some(s) = e.downcast_ref::<String>() {
                s.clone()
            } else {
                "panic".to_string()
            };
            json!({"ev": "panic", "msg": msg})
        }
    }
}

fn gen_queries(prop: &str, n: usize, seed: u64, out: &Path, cap: usize) {
    let mut rng = StdRng::seed_from_u64(seed);
    let ctx = query::Ctx::new();
    let mut sink = Sink::new(out, cap);
    let mut positions = posgen::mixed(&mut rng, n);
    if prop == "C16" || prop == "C07" || prop == "C01" {
        // boards REACHED by special moves (incrementally updated derived state), not rebuilt from squares
        let mut extra = Vec::new();
        for b in positions.iter() {
            for m in owlchess::movegen::legal::gen_all(b).iter() {
                if m.kind() != owlchess::moves::MoveKind::Simple && m.kind() != owlchess::moves::MoveKind::PawnDouble {
                    if let Ok(Ok(nb)) = std::panic::catch_unwind(std::panic::AssertUnwindSafe(|| b.make_move(*m))) {
                        extra.push(nb);
                    }
                }
            }
        }
        extra.truncate(n / 3 + 50);
        positions.extend(extra);
    }
    if prop == "C16" {
        // occupancy patterns: for every square and both slider geometries, subsets of the relevant squares realised
        // as positions (bishop masks of at most 2^5 subsets completely, the others sampled; HARNESS_DEEP: all
        // bishop subsets and 256 rook subsets per square)
        use rand::Rng;
        let deep = std::env::var("HARNESS_DEEP").is_ok();
        for sq in 0..64 {
            for rook in [false, true] {
                let bits = posgen::relevant_squares(sq, rook).len();
                let all = 1u64 << bits;
                let want = if !rook && (deep || bits <= 5) { all } else if deep { 256 } else { (n as u64 / 100).clamp(8, 24) };
                for k in 0..want {
                    // (the two extreme patterns - nothing and everything occupied - are always among them)
                    let subset = if want == all { k } else if k == 0 { 0 } else if k == 1 { all - 1 } else { rng.gen_range(0..all) };
                    if let Some(b) = posgen::occupancy_position(&mut rng, sq, rook, subset) {
                        positions.push(b);
                    }
                }
            }
        }
    }
    for b in positions.iter() {
        sink.begin(&json!({"prop": prop, "fen": crate::proj::own_fen(b.raw())}));
        let ev = query_one(&ctx, b, prop);
        sink.emit(&ev);
    }
    let total = sink.finish();
    println!("GEN prop={} events={}", prop, total);
}

fn query_one(ctx: &query::Ctx, b: &owlchess::Board, prop: &str) -> Value {
    let ev = catch(std::panic::AssertUnwindSafe(|| query::query_event(ctx, b, prop)));
    if ev["ev"] == "panic" {
        json!({"ev": "q", "pos": proj::raw_json(b.raw()), "panic": ev["msg"]})
    } else {
        ev
    }
}

/// Re-executes the input recorded in a replay file against the current code.
fn regen(prop: &str, input: &Path, out: &Path) {
    let rep: Value = serde_json::from_str(&std::fs::read_to_string(input).unwrap()).unwrap();
    let mut sink = Sink::new(out, 100000);
    let ev = &rep["event"];
    if !rep["crash"].is_null() {
        // an input on which the process died: hand it to the library again (dying again = still failing)
        let c = &rep["crash"];
        let b = c["fen"].as_str().and_then(|f| owlchess::Board::from_fen(f).ok()).unwrap_or_else(owlchess::Board::initial);
        sink.begin(c);
        if let (Some(w), Some(t)) = (c["what"].as_str(), c["text"].as_str()) {
            sink.emit(&notation::parse_event(w, t, &b));
        } else if let Some(t) = c["san"].as_str() {
            let mut e = notation::parse_event("from_san", t, &b);
            e["pos"] = proj::raw_json(b.raw());
            sink.emit(&e);
        } else if let Some(t) = c["text"].as_str() {
            for w in notation::PARSERS.iter() {
                sink.emit(&notation::parse_event(w, t, &b));
            }
        } else {
            let ctx = query::Ctx::new();
            for p in ["C01", "C03", "C06", "C07", "C16"] {
                sink.emit(&query_one(&ctx, &b, p));
            }
            let mut rng = StdRng::seed_from_u64(1);
            sink.emit(&notation::san_event(&mut rng, &b));
            sink.emit(&notation::uci_event(&b));
            sink.emit(&misc::cap_event(&b));
        }
        sink.finish();
        return;
    }
    match ev["ev"].as_str() {
        Some("q") => {
            let raw = proj::raw_from_json(&ev["pos"]);
            let b = owlchess::Board::try_from(raw).expect("replay position must be valid");
            let ctx = query::Ctx::new();
            sink.begin(&json!({"prop": prop, "fen": crate::proj::own_fen(b.raw())}));
            sink.emit(&query_one(&ctx, &b, prop));
        }
        Some(kind @ ("fen" | "fenparse" | "san" | "uci" | "parse" | "rawval" | "sym" | "cap" | "hashpair" | "magic")) => {
            // stateless events: the same input handed to the current code again
            let text_of = |v: &Value| -> String {
                v.as_array().map(|a| a.iter().filter_map(|c| char::from_u32(c.as_u64().unwrap_or(0) as u32)).collect()).unwrap_or_default()
            };
            let board_of = |v: &Value| -> owlchess::Board {
                owlchess::Board::try_from(proj::raw_from_json(v)).expect("replay position must be valid")
            };
            sink.begin(&json!({"prop": prop, "replay": kind}));
            let mut rng = StdRng::seed_from_u64(1);
            match kind {
                "fen" => {
                    if ev["kind"] == "board" {
                        sink.emit(&notation::fen_board_event(&board_of(&ev["pos"])));
                    } else {
                        sink.emit(&notation::fen_raw_event(&proj::raw_from_json(&ev["pos"])));
                    }
                }
                "fenparse" => sink.emit(&notation::fen_parse_event(&text_of(&ev["text"]))),
                "san" => sink.emit(&notation::san_event(&mut rng, &board_of(&ev["pos"]))),
                "uci" => sink.emit(&notation::uci_event(&board_of(&ev["pos"]))),
                "parse" => {
                    let b = if ev["pos"].is_null() { owlchess::Board::initial() } else { board_of(&ev["pos"]) };
                    let mut e = notation::parse_event(ev["what"].as_str().unwrap(), &text_of(&ev["text"]), &b);
                    if !ev["pos"].is_null() {
                        e["pos"] = ev["pos"].clone();
                    }
                    sink.emit(&e);
                }
                "rawval" => sink.emit(&misc::rawval_event(&proj::raw_from_json(&ev["raw"]))),
                "sym" => {
                    for e in misc::sym_events(&board_of(&ev["a"]["pos"])) {
                        if e["kind"] == ev["kind"] {
                            sink.emit(&e);
                        }
                    }
                }
                "cap" => sink.emit(&misc::cap_event(&board_of(&ev["pos"]))),
                "hashpair" => {
                    let item = |v: &Value| -> Value {
                        let r = proj::raw_from_json(&v["pos"]);
                        let stored = owlchess::Board::try_from(r).ok().filter(|b| *b.raw() == r).map(|b| proj::hex(b.zobrist_hash())).unwrap_or_default();
                        json!({"pos": v["pos"], "scratch": proj::hex(r.zobrist_hash()), "stored": if v["stored"] == "" { String::new() } else { stored }})
                    };
                    sink.emit(&json!({"ev": "hashpair", "kind": ev["kind"], "a": item(&ev["a"]), "b": item(&ev["b"])}));
                }
                _ => {
                    // magic: recompute the attack sets for the recorded occupancies
                    let sq = owlchess::Coord::from_index(ev["sq"].as_u64().unwrap() as usize);
                    let rook = ev["piece"] == "rook";
                    let entries: Vec<Value> = ev["entries"].as_array().unwrap().iter().map(|en| {
                        let mut occ = owlchess::Bitboard::EMPTY;
                        for s in en[0].as_array().unwrap() {
                            occ.set(owlchess::Coord::from_index(s.as_u64().unwrap() as usize));
                        }
                        let att = if rook { owlchess::verif_hooks::attack_rook(sq, occ) } else { owlchess::verif_hooks::attack_bishop(sq, occ) };
                        json!([en[0], proj::bb_json(att)])
                    }).collect();
                    sink.emit(&json!({"ev": "magic", "piece": ev["piece"], "sq": ev["sq"], "entries": entries}));
                }
            }
        }
        Some("leapers") => sink.emit(&misc::leaper_event()),
        Some("between") => sink.emit(&misc::between_event(ev["src"].as_u64().unwrap() as usize)),
        Some("ucilist") => {
            for e in chain::ucilist_sweep(121) {
                if e["first"] == ev["first"] && e["second"] == ev["second"] {
                    sink.emit(&e);
                }
            }
        }
        Some(k) if k.starts_with("t_") || k.starts_with("bb_") => {
            // deterministic blocks of C20: regenerate all of them
            let mut rng = StdRng::seed_from_u64(1);
            for e in misc::type_events() {
                sink.emit(&e);
            }
            sink.emit(&misc::consts_event());
            sink.emit(&misc::outcomes_event());
            sink.emit(&misc::moveapi_event());
            sink.emit(&misc::geometry_event());
            for e in misc::bitboard_events(&mut rng) {
                sink.emit(&e);
            }
            for e in misc::iter_events(&mut rng) {
                sink.emit(&e);
            }
        }
        _ => {
            if let Some(sess) = rep["session"].as_array() {
                sink.begin(&json!({"prop": prop, "session": "replay"}));
                let is_chain = sess.first().map(|e| e["ev"] == "c_new").unwrap_or(false);
                let evs = if is_chain { chain::reexec(sess) } else { session::reexec(sess) };
                for e in evs {
                    sink.emit(&e);
                }
                // stateless extras are re-emitted as recorded inputs
            } else {
                eprintln!("regen: unsupported replay payload");
                std::process::exit(2);
            }
        }
    }
    sink.finish();
}

const SHUFFLE_STARTS: [&str; 16] = [
    "4k3/8/8/8/8/8/8/R3K3 w - - 90 60",
    "4k3/8/8/8/8/8/8/R3K3 w Q - 0 1",
    "r3k2r/8/8/8/8/8/8/R3K2R w KQkq - 0 1",
    "r3k2r/8/8/8/8/8/8/R3K2R b KQkq - 96 70",
    "8/8/4k3/8/2n5/8/3NK3/8 w - - 140 100",
    "8/8/4k3/8/2n5/8/3NK3/8 b - - 97 100",
    "6k1/5ppp/8/8/8/8/5PPP/2R3K1 w - - 0 30",
    "rnbqkbnr/pppppppp/8/8/8/8/PPPPPPPP/RNBQKBNR w KQkq - 0 1",
    "4k3/8/8/3pP3/8/8/8/4K2R w K d6 0 1",
    "4k2r/8/8/8/3Pp3/8/8/4K3 b k d3 0 1",
    "8/8/8/4k3/8/8/3QK3/8 w - - 148 90",
    "7k/8/8/8/8/8/8/KQ6 w - - 98 1",
    "k7/8/K7/4B3/8/8/8/8 w - - 0 1",
    "k7/8/1K1p4/8/5B2/8/8/8 w - - 0 1",
    "7k/8/6K1/8/8/8/8/5N2 w - - 0 1",
    "8/8/8/8/8/1k6/8/K1b5 w - - 0 1",
];

/// the position right after a double pawn step on every file, either colour: the mark makes it differ
/// from the same squares without the mark
fn double_push_starts() -> Vec<String> {
    let mut v = Vec::new();
    for f in 0..8usize {
        let file = (b'a' + f as u8) as char;
        let mut w: Vec<char> = "PPPPPPPP".chars().collect();
        w[f] = '1';
        let row4: String = format!("{}P{}", if f > 0 { f.to_string() } else { String::new() }, if f < 7 { (7 - f).to_string() } else { String::new() });
        let row2: String = w.iter().collect::<String>().replace('1', "1");
        v.push(format!("rnbqkbnr/pppppppp/8/8/{row4}/8/{row2}/RNBQKBNR b KQkq {file}3 0 1"));
        let mut bl: Vec<char> = "pppppppp".chars().collect();
        bl[f] = '1';
        let row5: String = format!("{}p{}", if f > 0 { f.to_string() } else { String::new() }, if f < 7 { (7 - f).to_string() } else { String::new() });
        let row7: String = bl.iter().collect();
        v.push(format!("rnbqkbnr/{row7}/8/{row5}/8/8/PPPPPPPP/RNBQKBNR w KQkq {file}6 0 2"));
    }
    v
}

/// Scripted repetition games: from the position right after a double step on each file, the knights shuffle
/// back to the same squares seven times, then the game is walked back with pops (counts must come down as
/// they went up; the marked start is a different position from the repeated one; more than five
/// occurrences are perfectly legal for the chain).
fn emit_scripted_repetitions(prop: &str, sink: &mut Sink) {
        // repetitions WHILE the halfmove clock crosses 100 and 150: knights shuffled from clocks just below the limits
        // (fivefold must win over the merely claimable 50-move draw; strict/relaxed/force filters after every cycle)
        for hm in [84u32, 90, 96, 134, 140] {
            let fen = format!("1n2k3/8/8/8/8/8/8/1N2K3 w - - {hm} 50");
            let b = owlchess::Board::from_fen(&fen).unwrap();
            let mut c: Option<chain::Chain> = None;
            sink.begin(&json!({"prop": prop, "scripted_clock": fen}));
            let mut evs = vec![chain::exec(&mut c, &json!({"op": "new", "pos": proj::raw_json(b.raw())}))];
            for _ in 0..6 {
                for t in ["b1c3", "b8c6", "c3b1", "c6b8"] {
                    evs.push(chain::exec(&mut c, &json!({"op": "push", "like": {"t": "uci", "text": proj::text_json(t)}})));
                    evs.push(chain::exec(&mut c, &json!({"op": "calc"})));
                }
                for f in ["strict", "force", "relaxed"] {
                    evs.push(chain::exec(&mut c, &json!({"op": "set_auto", "filter": f})));
                    evs.push(chain::exec(&mut c, &json!({"op": "clear_outcome"})));
                }
            }
            for _ in 0..10 {
                evs.push(chain::exec(&mut c, &json!({"op": "pop"})));
                evs.push(chain::exec(&mut c, &json!({"op": "calc"})));
            }
            if sink.room() < evs.len() {
                sink.rotate();
            }
            for e in evs {
                sink.emit(&e);
            }
        }
        // positions that recur within TWO plies: null moves (the documented TryUnchecked contract: not in check),
        // alone and between knight hops - repetitions while the halfmove clock is still tiny
        for (fen, seq) in [("4k3/8/8/8/8/8/8/4K2R w K - 0 1", vec!["0000"; 10]),
                           ("rnbqkbnr/pppppppp/8/8/8/8/PPPPPPPP/RNBQKBNR w KQkq - 0 1", vec!["g1f3", "0000", "f3g1", "0000", "g1f3", "0000", "f3g1", "0000", "g1f3", "0000", "f3g1", "0000"]),
                           ("4k3/8/8/3n4/8/8/8/R3K3 b Q - 3 9", vec!["d5b4", "0000", "b4d5", "0000", "d5b4", "0000", "b4d5", "0000", "d5b4", "0000", "b4d5", "0000"])] {
            let b = owlchess::Board::from_fen(fen).unwrap();
            let mut c: Option<chain::Chain> = None;
            sink.begin(&json!({"prop": prop, "scripted_null": fen}));
            let mut evs = vec![chain::exec(&mut c, &json!({"op": "new", "pos": proj::raw_json(b.raw())}))];
            for t in seq.iter() {
                let like = if *t == "0000" { json!({"t": "try", "m": [0, 0, 0, 0]}) } else { json!({"t": "uci", "text": proj::text_json(t)}) };
                evs.push(chain::exec(&mut c, &json!({"op": "push", "like": like})));
                evs.push(chain::exec(&mut c, &json!({"op": "calc"})));
            }
            for f in ["force", "strict", "relaxed"] {
                evs.push(chain::exec(&mut c, &json!({"op": "set_auto", "filter": f})));
                evs.push(chain::exec(&mut c, &json!({"op": "clear_outcome"})));
            }
            for _ in 0..6 {
                evs.push(chain::exec(&mut c, &json!({"op": "pop"})));
                evs.push(chain::exec(&mut c, &json!({"op": "calc"})));
            }
            if sink.room() < evs.len() {
                sink.rotate();
            }
            for e in evs {
                sink.emit(&e);
            }
        }
        // scripted: from the position right after a double step on each file, shuffle the knights back to the
        // same squares three times; the start (WITH the mark) is a different position from the repeated one
        for f in double_push_starts() {
            let b = owlchess::Board::from_fen(&f).unwrap();
            let seq: [&str; 4] = if b.side() == owlchess::Color::Black { ["g8f6", "g1f3", "f6g8", "f3g1"] } else { ["g1f3", "g8f6", "f3g1", "f6g8"] };
            let mut c: Option<chain::Chain> = None;
            sink.begin(&json!({"prop": prop, "scripted": f}));
            let mut evs = vec![chain::exec(&mut c, &json!({"op": "new", "pos": proj::raw_json(b.raw())}))];
            evs.push(chain::exec(&mut c, &json!({"op": "calc"})));
            for _ in 0..4 {
                for t in seq {
                    evs.push(chain::exec(&mut c, &json!({"op": "push", "like": {"t": "uci", "text": proj::text_json(t)}})));
                }
                evs.push(chain::exec(&mut c, &json!({"op": "calc"})));
            }
            evs.push(chain::exec(&mut c, &json!({"op": "set_auto", "filter": "strict"})));
            evs.push(chain::exec(&mut c, &json!({"op": "clear_outcome"})));
            // ... two more cycles (sixth and seventh occurrence), then walk back with pops: the counts must
            // come down exactly as they went up
            for _ in 0..2 {
                for t in seq {
                    evs.push(chain::exec(&mut c, &json!({"op": "push", "like": {"t": "uci", "text": proj::text_json(t)}})));
                }
                evs.push(chain::exec(&mut c, &json!({"op": "calc"})));
            }
            for _ in 0..12 {
                evs.push(chain::exec(&mut c, &json!({"op": "pop"})));
                evs.push(chain::exec(&mut c, &json!({"op": "calc"})));
            }
            if sink.room() < evs.len() {
                sink.rotate();
            }
            for e in evs {
                sink.emit(&e);
            }
        }
}

/// Scripted games in which a ROOK or QUEEN makes the king's castling step (e1-g1, e1-c1, e8-g8, e8-c8), a king
/// makes it without the right, and real castlings - printed, replayed from the printed list and walked.
fn emit_scripted_kinglike(prop: &str, rng: &mut StdRng, sink: &mut Sink) {
    let games: [(&str, &[&str]); 6] = [
        ("4r1k1/5ppp/8/8/8/8/5PPP/4R1K1 w - - 0 31", &["e1c1", "e8c8", "c1e1", "c8e8", "e1g1", "e8g8"]),
        ("3k4/8/8/8/8/8/7K/4Q3 w - - 0 50", &["e1g1", "d8d7", "g1c1", "d7e8", "c1e1", "e8d8", "e1c1"]),
        ("4q3/7k/8/8/8/8/8/3K4 b - - 3 9", &["e8g8", "d1d2", "g8c8", "d2e1", "c8e8"]),
        ("r3k2r/8/8/8/8/8/8/R3K2R w KQkq - 0 1", &["e1g1", "e8c8", "f1e1", "d8e8", "e1c1", "e8g8"]),
        ("r3k2r/8/8/8/8/8/8/R3K2R w - - 0 1", &["e1f1", "e8d8", "f1e1", "d8e8", "e1g1"]),
        ("rnbqkbnr/pppppppp/8/8/8/8/PPPPPPPP/RNBQKBNR w KQkq - 0 1",
         &["e2e4", "e7e5", "g1f3", "b8c6", "f1c4", "f8c5", "e1g1", "g8f6", "f1e1", "e8g8", "d2d3", "d7d6", "g1h1", "g8h8", "e1g1", "f8e8", "a2a3", "e8g8"]),
    ];
    for (fen, moves) in games.iter() {
        let b = owlchess::Board::from_fen(fen).unwrap();
        let mut c: Option<chain::Chain> = None;
        sink.begin(&json!({"prop": prop, "scripted": fen}));
        let mut evs = vec![chain::exec(&mut c, &json!({"op": "new", "pos": proj::raw_json(b.raw())}))];
        for (i, t) in moves.iter().enumerate() {
            evs.push(chain::exec(&mut c, &json!({"op": "push", "like": {"t": (if i % 2 == 0 { "uci" } else { "ucimove" }), "text": proj::text_json(t)}})));
            evs.push(chain::exec(&mut c, &json!({"op": "text", "variants": chain::text_variants(rng, true)})));
        }
        evs.push(chain::exec(&mut c, &json!({"op": "walk", "steps": ["next", "next", "prev", "end", "prev", "prev", "start", "next"]})));
        evs.push(chain::exec(&mut c, &json!({"op": "eq"})));
        for _ in 0..3 {
            evs.push(chain::exec(&mut c, &json!({"op": "pop"})));
        }
        evs.push(chain::exec(&mut c, &json!({"op": "text", "variants": chain::text_variants(rng, true)})));
        if sink.room() < evs.len() {
            sink.rotate();
        }
        for e in evs {
            sink.emit(&e);
        }
    }
}

fn gen_chain(prop: &str, n: usize, rng: &mut StdRng, sink: &mut Sink) {
    use rand::seq::SliceRandom;
    use rand::Rng;
    let ctx = query::Ctx::new();
    if prop == "C17" || prop == "C13" {
        emit_scripted_kinglike(prop, rng, sink);
    }
    if prop == "C14" {
        emit_scripted_repetitions(prop, sink);
    }
    if prop == "C17" {
        sink.begin(&json!({"prop": prop, "sweep": "ucilist"}));
        let deep = std::env::var("HARNESS_DEEP").is_ok();
        for e in chain::ucilist_sweep(if deep { 121 } else { 61 }) {
            sink.emit(&e);
        }
        sink.rotate();
    }
    let positions = posgen::mixed(rng, n);
    let with_san = std::env::var("HARNESS_NO_SAN").is_err();
    for (i, b) in positions.iter().enumerate() {
        let (start, profile, nops) = match prop {
            "C14" => {
                if i % 4 == 1 {
                    let dp = double_push_starts();
                    let f = &dp[(i / 4) % dp.len()];
                    (owlchess::Board::from_fen(f).unwrap(), "shuffle", rng.gen_range(14..30))
                } else if i % 4 != 3 {
                    let f = SHUFFLE_STARTS.choose(rng).unwrap();
                    (owlchess::Board::from_fen(f).unwrap(), "shuffle", rng.gen_range(20..90))
                } else {
                    (b.clone(), "shuffle", rng.gen_range(10..50))
                }
            }
            "C17" => (b.clone(), "walk", rng.gen_range(8..40)),
            _ => (b.clone(), "mixed", rng.gen_range(8..45)),
        };
        sink.begin(&json!({"prop": prop, "session_start": crate::proj::own_fen(start.raw())}));
        let evs = chain::session(rng, &ctx, &start, nops, profile, with_san);
        if sink.room() < evs.len() {
            sink.rotate();
        }
        for e in evs {
            sink.emit(&e);
        }
    }
}

fn gen_notation(prop: &str, n: usize, rng: &mut StdRng, sink: &mut Sink) {
    use rand::seq::SliceRandom;
    use rand::Rng;
    let positions = posgen::mixed(rng, n);
    match prop {
        "C08" => {
            for b in positions.iter() {
                sink.begin(&json!({"prop": prop, "fen": crate::proj::own_fen(b.raw())}));
                sink.emit(&notation::fen_board_event(b));
                let fen = b.as_fen();
                for t in notation::noncanonical_fens(rng, &fen) {
                    sink.begin(&json!({"prop": prop, "text": t}));
                    sink.emit(&notation::fen_parse_event(&t));
                }
                let r = notation::random_raw(rng);
                sink.begin(&json!({"prop": prop, "rawfen": crate::proj::own_fen(&r)}));
                sink.emit(&notation::fen_raw_event(&r));
                let t = notation::mutate(rng, &r.as_fen());
                sink.emit(&notation::fen_parse_event(&t));
            }
            // boards REACHED by special moves and captures (rights, marks and counters as make_move left them,
            // not as a parser or the validator would normalise them)
            let mut reached = 0usize;
            for b in positions.iter() {
                if reached >= 2 * n + 200 {
                    break;
                }
                // promotions and castlings first, then at most a dozen others per position
                let mut ms: Vec<owlchess::Move> = owlchess::movegen::legal::gen_all(b).iter().copied().collect();
                ms.sort_by_key(|m| match m.kind() {
                    owlchess::moves::MoveKind::Simple => 2,
                    owlchess::moves::MoveKind::PawnDouble => 1,
                    _ => 0,
                });
                let mut here = 0usize;
                for m in ms.iter() {
                    if here >= 12 {
                        break;
                    }
                    let special = m.kind() != owlchess::moves::MoveKind::Simple
                        || b.get(m.dst()).piece() == Some(owlchess::Piece::Rook)
                        || m.src_cell().piece() == Some(owlchess::Piece::Rook)
                        || m.src_cell().piece() == Some(owlchess::Piece::King);
                    if special {
                        if let Ok(Ok(nb)) = std::panic::catch_unwind(std::panic::AssertUnwindSafe(|| b.make_move(*m))) {
                            sink.begin(&json!({"prop": prop, "fen": crate::proj::own_fen(b.raw()), "move": m.to_string()}));
                            sink.emit(&notation::fen_board_event(&nb));
                            reached += 1;
                            here += 1;
                        }
                    }
                }
            }
            // boards reached by the NULL move: from every stream position that carries an e.p. mark, and from
            // every fourth other one
            for (i, b) in positions.iter().enumerate() {
                if b.raw().ep_source.is_some() || i % 4 == 0 {
                    if let Some(nb) = notation::null_reached(b) {
                        sink.begin(&json!({"prop": prop, "fen": crate::proj::own_fen(b.raw()), "move": "0000"}));
                        sink.emit(&notation::fen_board_event(&nb));
                    }
                }
            }
            // the longest FENs there are (89..93 bytes): dense boards, all rights, e.p., five-digit counters
            for i in 0..(n / 8).max(24) {
                let b = if i < posgen::DENSE_FENS.len() { owlchess::Board::from_fen(posgen::DENSE_FENS[i]).unwrap() } else { posgen::dense(rng) };
                sink.begin(&json!({"prop": prop, "dense": i}));
                sink.emit(&notation::fen_board_event(&b));
            }
            // every run-length pattern of one rank: 2^8 occupancy masks
            for mask in 0..256u32 {
                let mut r = owlchess::RawBoard::empty();
                let rank = rng.gen_range(0..8usize);
                for f in 0..8 {
                    if mask & (1 << f) != 0 {
                        r.cells[rank * 8 + f] = owlchess::Cell::from_index(rng.gen_range(1..13));
                    }
                }
                sink.emit(&notation::fen_raw_event(&r));
            }
        }
        "C09" => {
            for b in positions.iter() {
                sink.begin(&json!({"prop": prop, "fen": crate::proj::own_fen(b.raw())}));
                sink.emit(&notation::san_event(rng, b));
            }
        }
        "C10" => {
            for b in positions.iter() {
                sink.begin(&json!({"prop": prop, "fen": crate::proj::own_fen(b.raw())}));
                sink.emit(&notation::uci_event(b));
            }
        }
        "C12" => {
            let alphabet: Vec<char> = "ah18e4NxQ=+#O-0 wKq/.é€😀\u{0}".chars().collect();
            let deep = std::env::var("HARNESS_DEEP").is_ok();
            let mut strings = notation::all_strings(&alphabet, 2);
            let l3 = notation::all_strings(&alphabet, 3);
            if deep {
                strings = l3;
            } else {
                for s in l3.iter().filter(|s| s.chars().count() == 3) {
                    if rng.gen_range(0..12) == 0 {
                        strings.push(s.clone());
                    }
                }
            }
            let mut pos: Vec<owlchess::Board> = positions.iter().take(8).cloned().collect();
            // make sure both colours are on move among the positions used by the position-dependent parsers
            pos.push(owlchess::Board::from_fen("rnbqkbnr/pppppppp/8/8/4P3/8/PPPP1PPP/RNBQKBNR b KQkq e3 0 1").unwrap());
            pos.push(owlchess::Board::from_fen("4k3/P6P/8/8/8/8/p6p/4K3 b - - 0 1").unwrap());
            pos.push(owlchess::Board::from_fen("4k3/P6P/8/8/8/8/p6p/4K3 w - - 0 1").unwrap());
            // grammar-directed: valid texts of every kind and their mutations
            let mut valid: Vec<String> = vec!["e2e4".into(), "e7e8q".into(), "0000".into(), "O-O".into(), "O-O-O+".into(),
                "Nbd2".into(), "exd5".into(), "e8=Q#".into(), "dcB".into(), "KQkq".into(), "-".into(), "w".into(), "b".into(),
                "e4".into(), "a1".into(), "h8".into(), "P".into(), "k".into(), ".".into(), "Qh4xe1++".into(), "R1a3".into()];
            valid.extend(posgen::DENSE_FENS.iter().map(|s| s.to_string()));
            for b in positions.iter().take(if deep { 400 } else { 40 }) {
                valid.push(b.as_fen());
                for m in owlchess::movegen::legal::gen_all(b).iter().take(6) {
                    valid.push(m.to_string());
                    if let Ok(s) = m.san(b) {
                        valid.push(s.to_string());
                    }
                }
                let pl = posgen::playout(rng, b, 6);
                let _ = pl;
            }
            // every pawn-move SAN form for every square, with and without promotion suffix (both colours are
            // reached because the positions used for from_san differ in the side to move)
            for f in "abcdefgh".chars() {
                for r in 1..=8 {
                    for suf in ["", "=Q", "N", "=R+", "#"] {
                        strings.push(format!("{f}{r}{suf}"));
                    }
                    strings.push(format!("{}x{f}{r}", if f == 'a' { 'b' } else { 'a' }));
                    strings.push(format!("{}x{f}{r}=N", if f == 'h' { 'g' } else { 'h' }));
                }
            }
            // FEN placement field: one extra character inserted after each rank / at the very end
            for fen in ["rnbqkbnr/pppppppp/8/8/8/8/PPPPPPPP/RNBQKBNR w KQkq - 0 1", "8/8/8/8/8/8/8/8 w - - 0 1",
                        "k7/8/8/8/8/8/8/7K b - - 3 4"] {
                let (place, rest) = fen.split_once(' ').unwrap();
                let ranks: Vec<&str> = place.split('/').collect();
                for i in 0..8 {
                    for ins in ["p", "K", "1", "8", "9", "/", ".", "x"] {
                        let mut rr: Vec<String> = ranks.iter().map(|x| x.to_string()).collect();
                        rr[i].push_str(ins);
                        strings.push(format!("{} {}", rr.join("/"), rest));
                        let mut rr: Vec<String> = ranks.iter().map(|x| x.to_string()).collect();
                        rr[i].insert_str(0, ins);
                        strings.push(format!("{} {}", rr.join("/"), rest));
                    }
                }
            }
            let reps = if deep { 12 } else { 3 };
            for v in valid.clone() {
                strings.push(v.clone());
                for _ in 0..reps {
                    strings.push(notation::mutate(rng, &v));
                }
            }
            // length boundaries: runs of one character of every length up to 130, and the longest texts that are
            // still accepted (digit-by-digit placement, zero-padded and signed counters, padded move lists)
            for ch in ['1', 'a', 'K', '/', ' ', '0', '-', 'x'] {
                for len in 0..=130usize {
                    if len <= 3 || len % (if deep { 1 } else { 3 }) == 0 || (60..=100).contains(&len) {
                        strings.push(ch.to_string().repeat(len));
                    }
                }
            }
            let ones = ["11111111"; 8].join("/");
            strings.push(format!("{ones} w - - 0 1"));
            strings.push(format!("{ones} b KQkq - 65535 65535"));
            strings.push("1k1p1p1p/p1p1p1p1/1p1p1p1p/11111111/11111111/P1P1P1P1/1P1P1P1P/P1P1P1K1 w - - 00000000000000000000000000000000000012 +0000000000000000000000000000000000000000007".into());
            strings.push("r1b1k1nr/1p1p1p1p/n1b1q1n1/1p1p1p2/1P1P1P2/N1B1Q1N1/1P1P1P1P/R1B1K1NR w KQkq d6 +10000 0000000000000000000000000000000000000000000000000000000000000000000000000000000000000000010000".into());
            strings.push(format!("e2e4{}e7e5", " ".repeat(5000)));
            strings.push(format!("{}e2e4", "\t".repeat(300)));
            for n in [85usize, 86, 87, 88, 89, 90, 91, 92, 93, 94, 95, 96, 127, 128, 129, 255, 256, 257] {
                // a valid FEN padded to exactly n bytes by zero-padding the move number
                let head = "r1b1k1nr/1p1p1p1p/n1b1q1n1/1p1p1p2/1P1P1P2/N1B1Q1N1/1P1P1P1P/R1B1K1NR w KQkq d6 10000 ";
                if n > head.len() {
                    strings.push(format!("{head}{}7", "0".repeat(n - head.len() - 1)));
                }
            }
            // the vocabulary of game scores around SAN: annotation and result tokens, alone and glued to valid texts
            let tokens = ["e.p.", "ep", "e.p", "!", "?", "!!", "??", "!?", "?!", "+-", "-+", "=", "1-0", "0-1", "1/2-1/2", "*", "1.", "1...",
                          "...", "..", "$1", "(", ")", "{", "}", "[", "]", "mate", "ch", "dbl", "++", "#", "+", "x", ":", "=Q", "(Q)", "/Q", "Z0", "--", "@"];
            for t in tokens {
                strings.push(t.to_string());
                strings.push(format!(" {t}"));
                strings.push(format!("{t}+"));
                for base in ["e4", "exd6", "Nf3", "O-O", "e8=Q", "e2e4", "Qh4xe1"] {
                    strings.push(format!("{base}{t}"));
                    strings.push(format!("{base} {t}"));
                    strings.push(format!("{t}{base}"));
                }
            }
            // long and random-unicode strings
            strings.push("e2e4 ".repeat(400));
            strings.push("é".repeat(1000));
            strings.push("8/8/8/8/8/8/8/8 w - - 0 1".repeat(3));
            for _ in 0..(if deep { 3000 } else { 200 }) {
                let len = rng.gen_range(1..12);
                let s: String = (0..len).map(|_| char::from_u32(rng.gen_range(0..0x2fff)).unwrap_or('x')).collect();
                strings.push(s);
            }
            // UCI lists with every kind of whitespace
            for sep in [" ", "  ", "\t", "\n", "\r\n", "\u{a0}", "\u{2003}", "\u{c}", "\u{b}", "\u{85}"] {
                strings.push(format!("e2e4{sep}e7e5{sep}g1f3"));
                strings.push(format!("{sep}e2e4{sep}"));
            }
            for s in strings.iter() {
                for what in notation::PARSERS.iter() {
                    let needs_pos = matches!(*what, "from_uci" | "from_san" | "ucilist");
                    let b = if needs_pos { pos.choose(rng).unwrap() } else { &pos[0] };
                    sink.begin(&json!({"prop": prop, "what": what, "text": s}));
                    let mut ev = notation::parse_event(what, s, b);
                    if needs_pos {
                        ev["pos"] = proj::raw_json(b.raw());
                    }
                    sink.emit(&ev);
                }
            }
        }
        _ => unreachable!(),
    }
}

fn gen_misc(prop: &str, n: usize, rng: &mut StdRng, sink: &mut Sink) {
    use rand::Rng;
    match prop {
        "C11" => {
            let valid = posgen::mixed(rng, (n / 8).max(120));
            for b in valid.iter() {
                sink.emit(&misc::rawval_event(b.raw()));
                // the same men, rights and e.p. square with other counters, validated straight afterwards
                // (a result remembered from the previous call must not leak into this one)
                let mut r = *b.raw();
                r.move_number = r.move_number.wrapping_add(1 + rng.gen_range(0..3));
                if rng.gen_bool(0.5) {
                    r.move_counter = r.move_counter.wrapping_add(1);
                }
                sink.emit(&misc::rawval_event(&r));
            }
            for r in misc::raw_stream(rng, &valid, n) {
                sink.begin(&json!({"prop": prop, "rawfen": crate::proj::own_fen(&r), "ep": r.ep_source.map(|c| c.index())}));
                sink.emit(&misc::rawval_event(&r));
            }
            // every e.p. mark on every square x both sides, all 16 rights sets, on two skeletons
            for fen in ["4k3/8/8/pPpPpPpP/PpPpPpPp/8/8/4K3 w - - 0 1", "r3k2r/8/8/8/8/8/8/R3K2R w - - 0 1"] {
                let base = owlchess::RawBoard::from_fen(fen).unwrap();
                for side in [owlchess::Color::White, owlchess::Color::Black] {
                    for ep in 0..64 {
                        let mut r = base;
                        r.side = side;
                        r.ep_source = Some(owlchess::Coord::from_index(ep));
                        sink.emit(&misc::rawval_event(&r));
                    }
                    for cr in 0..16 {
                        let mut r = base;
                        r.side = side;
                        r.castling = owlchess::CastlingRights::from_index(cr);
                        sink.emit(&misc::rawval_event(&r));
                    }
                }
            }
        }
        "C15" => {
            // n = number of squares enumerated completely (64 = everything)
            sink.emit(&misc::leaper_event());
            for s in 0..64 {
                sink.emit(&misc::between_event(s));
            }
            let mut order: Vec<usize> = (0..64).collect();
            use rand::seq::SliceRandom;
            order.shuffle(rng);
            for (i, sq) in order.iter().enumerate() {
                for rook in [true, false] {
                    // bishop masks are small (<= 512 subsets): always enumerated completely
                    let complete = i < n || !rook;
                    sink.begin(&json!({"prop": prop, "sq": sq, "rook": rook}));
                    for ev in misc::magic_events(rng, *sq, rook, complete, 256) {
                        sink.emit(&ev);
                    }
                }
            }
        }
        "C18" => {
            for b in posgen::mixed(rng, n).iter() {
                sink.begin(&json!({"prop": prop, "fen": crate::proj::own_fen(b.raw())}));
                for ev in misc::sym_events(b) {
                    sink.emit(&ev);
                }
            }
        }
        "C19" => {
            sink.begin(&json!({"prop": prop, "what": "Move::new over every tuple"}));
            sink.emit(&misc::wf_sweep_event());
            let pos = posgen::mixed(rng, n);
            for b in pos.iter() {
                sink.begin(&json!({"prop": prop, "fen": crate::proj::own_fen(b.raw())}));
                sink.emit(&misc::cap_event(b));
            }
            // the longest texts (dense boards, five-digit counters) and, through the validator, OVERFULL armies:
            // more than sixteen men of one colour must not come out of validation as a Board (what is accepted
            // goes on to the generators with their fixed-capacity list)
            for i in 0..12 {
                let b = if i < posgen::DENSE_FENS.len() { owlchess::Board::from_fen(posgen::DENSE_FENS[i]).unwrap() } else { posgen::dense(rng) };
                sink.begin(&json!({"prop": prop, "fen": crate::proj::own_fen(b.raw())}));
                sink.emit(&misc::cap_event(&b));
            }
            for f in ["kBQQQQQQ/BR5Q/Q6Q/Q6Q/Q6Q/Q6Q/Q6Q/QQQQQQQK w - - 0 1", "1QQQQQQ1/Q6Q/Q6Q/Q6Q/Q3Q2Q/2Q4Q/BR5Q/k1KQ1QQ1 w - - 0 1",
                      "1qqqqqq1/q6q/q6q/q6q/q3q2q/2q4q/br5q/K1kq1qq1 b - - 0 1"] {
                let raw = owlchess::RawBoard::from_fen(f).unwrap();
                sink.begin(&json!({"prop": prop, "rawfen": f}));
                if let Ok(Ok(b)) = std::panic::catch_unwind(|| owlchess::Board::try_from(raw)) {
                    sink.emit(&misc::cap_event(&b));
                }
            }
            for _ in 0..30 {
                // a random overfull army of queens and rooks around two kings
                let mut raw = owlchess::RawBoard::empty();
                let side = if rng.gen_bool(0.5) { owlchess::Color::White } else { owlchess::Color::Black };
                let mut sq: Vec<usize> = (0..64).collect();
                rand::seq::SliceRandom::shuffle(&mut sq[..], rng);
                raw.cells[sq[0]] = owlchess::Cell::from_parts(side, owlchess::Piece::King);
                raw.cells[sq[1]] = owlchess::Cell::from_parts(side.inv(), owlchess::Piece::King);
                let men = rng.gen_range(17..31);
                for s in sq.iter().skip(2).take(men) {
                    raw.cells[*s] = owlchess::Cell::from_parts(side, if rng.gen_bool(0.8) { owlchess::Piece::Queen } else { owlchess::Piece::Rook });
                }
                raw.side = side;
                sink.begin(&json!({"prop": prop, "rawfen": crate::proj::own_fen(&raw)}));
                if let Ok(Ok(b)) = std::panic::catch_unwind(|| owlchess::Board::try_from(raw)) {
                    sink.emit(&misc::cap_event(&b));
                }
            }
            // maximal-mobility search: climb from corpus maximisers and from all-queen placements
            let iters: usize = std::env::var("HARNESS_CLIMB").ok().and_then(|s| s.parse().ok()).unwrap_or(3000);
            let mut starts: Vec<owlchess::Board> = pos.iter().take(6).cloned().collect();
            for f in ["3Q4/1Q4Q1/4Q3/2Q4R/Q4Q2/3Q4/NR4Q1/kN1BB1K1 w - - 0 1", "R6R/3Q4/1Q4Q1/4Q3/2Q4Q/Q4Q2/pp1Q4/kBNN1KB1 w - - 0 1"] {
                starts.push(owlchess::Board::from_fen(f).unwrap());
            }
            let mut best = 0;
            for st in starts.iter() {
                let b = misc::climb(rng, st, iters);
                best = best.max(misc::semi_count(&b));
                sink.begin(&json!({"prop": prop, "climbed": crate::proj::own_fen(b.raw())}));
                let mut ev = misc::cap_event(&b);
                ev["climbed"] = json!(true);
                sink.emit(&ev);
                // neighbours of the maximiser
                for _ in 0..20 {
                    let nb = posgen::mutate(rng, &b);
                    sink.begin(&json!({"prop": prop, "fen": crate::proj::own_fen(nb.raw())}));
                    sink.emit(&misc::cap_event(&nb));
                }
            }
            println!("CLIMB best_semilegal={}", best);
            // table lookups driven by a HISTORY: outcome calculation with up to seven occurrences of a position
            emit_scripted_repetitions(prop, sink);
            sink.rotate();
            // squares just outside the board in every text position of UCI and SAN moves
            let fch = ['a', 'h', '`', 'i'];
            let rch = ['0', '1', '8', '9'];
            for b in pos.iter().take(4) {
                for f1 in fch {
                    for r1 in rch {
                        for f2 in fch {
                            for r2 in rch {
                                let t = format!("{f1}{r1}{f2}{r2}");
                                for what in ["from_uci", "from_san", "uci"] {
                                    sink.begin(&json!({"prop": prop, "what": what, "text": t, "fen": crate::proj::own_fen(b.raw())}));
                                    let mut ev = notation::parse_event(what, &t, b);
                                    ev["pos"] = proj::raw_json(b.raw());
                                    sink.emit(&ev);
                                }
                            }
                        }
                        for t in [format!("N{f1}{r1}"), format!("{f1}{r1}"), format!("Nb{r1}c3"), format!("{f1}x{f1}{r1}"), format!("{f1}{r1}=Q")] {
                            sink.begin(&json!({"prop": prop, "what": "from_san", "text": t, "fen": crate::proj::own_fen(b.raw())}));
                            let mut ev = notation::parse_event("from_san", &t, b);
                            ev["pos"] = proj::raw_json(b.raw());
                            sink.emit(&ev);
                        }
                        sink.begin(&json!({"prop": prop, "what": "coord", "text": format!("{f1}{r1}")}));
                        sink.emit(&notation::parse_event("coord", &format!("{f1}{r1}"), b));
                    }
                }
            }
            // boundary inputs of every index computation reachable from text: pawn SAN to every square
            let files = "abcdefgh";
            for b in pos.iter().take(12) {
                for f in files.chars() {
                    for r in 1..=8 {
                        for t in [format!("{f}{r}"), format!("{f}{r}=Q"), format!("{}x{f}{r}", files.chars().nth(rng.gen_range(0..8)).unwrap())] {
                            sink.begin(&json!({"prop": prop, "san": t, "fen": crate::proj::own_fen(b.raw())}));
                            let mut ev = notation::parse_event("from_san", &t, b);
                            ev["pos"] = proj::raw_json(b.raw());
                            sink.emit(&ev);
                        }
                    }
                }
            }
        }
        "C20" => {
            for ev in misc::type_events() {
                sink.emit(&ev);
            }
            sink.emit(&misc::consts_event());
            sink.emit(&misc::outcomes_event());
            sink.emit(&misc::moveapi_event());
            sink.emit(&misc::geometry_event());
            for ev in misc::bitboard_events(rng) {
                sink.emit(&ev);
            }
            for ev in misc::iter_events(rng) {
                sink.emit(&ev);
            }
        }
        _ => unreachable!(),
    }
}

/// Positions enumerated by TLC (spec/MC_Families.tla) replayed into the real code: one event per position.
fn gen_from(prop: &str, posfile: &Path, out: &Path, cap: usize) {
    let ctx = query::Ctx::new();
    let mut sink = Sink::new(out, cap);
    let mut rng = StdRng::seed_from_u64(7);
    let text = std::fs::read_to_string(posfile).unwrap();
    let mut rejected = 0usize;
    for line in text.lines() {
        if line.trim().is_empty() {
            continue;
        }
        let v: Value = serde_json::from_str(line).unwrap();
        let raw = proj::raw_from_json(&v["pos"]);
        if prop == "C11" {
            // raw boards, valid or not: the verdict of validation is the observation
            sink.begin(&json!({"prop": prop, "rawfen": crate::proj::own_fen(&raw), "fam": v["fam"]}));
            sink.emit(&misc::rawval_event(&raw));
            continue;
        }
        let b = match owlchess::Board::try_from(raw) {
            Ok(b) if *b.raw() == raw => b,
            _ => {
                rejected += 1;
                continue;
            }
        };
        sink.begin(&json!({"prop": prop, "fen": crate::proj::own_fen(b.raw()), "fam": v["fam"]}));
        match prop {
            "C04" | "C05" => {
                let mut evs = session::all_moves_once(&b);
                if prop == "C05" {
                    evs.extend(session::hash_pairs(&mut rng, &b));
                }
                if sink.room() < evs.len() {
                    sink.rotate();
                }
                for e in evs {
                    sink.emit(&e);
                }
            }
            "C02" | "C13" => {
                // every semilegal move pushed once as a Move and once as UCI text (accepted ones popped again)
                let mut c: Option<chain::Chain> = None;
                let mut evs = vec![chain::exec(&mut c, &json!({"op": "new", "pos": proj::raw_json(b.raw())}))];
                let mut sv = Vec::new();
                owlchess::movegen::semilegal::gen_all_into(&b, &mut sv);
                let files = "abcdefgh";
                let mut likes: Vec<Value> = Vec::new();
                for (i, m) in sv.iter().enumerate() {
                    likes.push(if i % 2 == 0 { json!({"t": "move", "m": proj::mv_json(*m)}) }
                               else { json!({"t": "uci", "text": proj::text_json(&m.to_string())}) });
                    // promotions written WITHOUT the promotion piece, and plain pawn moves written WITH one: as UCI
                    // and as SAN text they denote no legal move
                    if m.src_cell().piece() == Some(owlchess::types::Piece::Pawn) {
                        let a = files.as_bytes()[m.src().file().index()] as char;
                        let bare_uci = format!("{}{}", m.src(), m.dst());
                        let bare_san = if m.src().file() == m.dst().file() { format!("{}", m.dst()) } else { format!("{a}x{}", m.dst()) };
                        if m.kind().promote().is_some() {
                            if m.kind() == owlchess::moves::MoveKind::PromoteQueen {
                                likes.push(json!({"t": "uci", "text": proj::text_json(&bare_uci)}));
                                likes.push(json!({"t": "san", "text": proj::text_json(&bare_san)}));
                                likes.push(json!({"t": "sanmove", "text": proj::text_json(&bare_san)}));
                            }
                        } else if m.kind() != owlchess::moves::MoveKind::Enpassant {
                            likes.push(json!({"t": "uci", "text": proj::text_json(&format!("{bare_uci}q"))}));
                            likes.push(json!({"t": "san", "text": proj::text_json(&format!("{bare_san}=Q"))}));
                        }
                    }
                    // SAN spellings of pawn captures: the short form "ed" and the long form "exd6", as a string
                    // and as a parsed san::Move (these take the path that applies the move without the final test)
                    if m.src_cell().piece() == Some(owlchess::types::Piece::Pawn) && m.src().file() != m.dst().file() {
                        let a = files.as_bytes()[m.src().file().index()] as char;
                        let c = files.as_bytes()[m.dst().file().index()] as char;
                        likes.push(json!({"t": "san", "text": proj::text_json(&format!("{a}{c}"))}));
                        likes.push(json!({"t": "sanmove", "text": proj::text_json(&format!("{a}x{}", m.dst()))}));
                    }
                }
                for like in likes.into_iter() {
                    let e = chain::exec(&mut c, &json!({"op": "push", "like": like}));
                    let ok = e["res"] == "ok";
                    evs.push(e);
                    if ok {
                        evs.push(chain::exec(&mut c, &json!({"op": "pop"})));
                    }
                }
                let _ = &sv;
                if sink.room() < evs.len() {
                    sink.rotate();
                }
                for e in evs {
                    sink.emit(&e);
                }
            }
            "C14" | "C17" => {
                // outcome calculation and automatic outcome under all three filters, walker and printing on a
                // one-move chain from the family position
                let mut c: Option<chain::Chain> = None;
                let mut evs = vec![chain::exec(&mut c, &json!({"op": "new", "pos": proj::raw_json(b.raw())}))];
                evs.push(chain::exec(&mut c, &json!({"op": "calc"})));
                for f in ["force", "strict", "relaxed"] {
                    evs.push(chain::exec(&mut c, &json!({"op": "set_auto", "filter": f})));
                    evs.push(chain::exec(&mut c, &json!({"op": "clear_outcome"})));
                }
                if prop == "C14" {
                    // every special move and capture (at most 16) pushed, the outcome calculated, popped again and
                    // the outcome calculated once more: pops must lower the counts exactly as pushes raised them,
                    // also when the undone move changed rights, marks or promoted
                    let mut sv = Vec::new();
                    owlchess::movegen::semilegal::gen_all_into(&b, &mut sv);
                    let special: Vec<owlchess::Move> = sv.iter().copied()
                        .filter(|m| m.kind() != owlchess::moves::MoveKind::Simple || b.get(m.dst()).is_occupied()
                                    || matches!(m.src_cell().piece(), Some(owlchess::Piece::King) | Some(owlchess::Piece::Rook)))
                        .take(16).collect();
                    for m in special {
                        let e = chain::exec(&mut c, &json!({"op": "push", "like": {"t": "move", "m": proj::mv_json(m)}}));
                        let ok = e["res"] == "ok";
                        evs.push(e);
                        evs.push(chain::exec(&mut c, &json!({"op": "calc"})));
                        if ok {
                            evs.push(chain::exec(&mut c, &json!({"op": "pop"})));
                            evs.push(chain::exec(&mut c, &json!({"op": "calc"})));
                        }
                    }
                }
                if let Some(m) = posgen::pick_move(&mut rng, &b) {
                    evs.push(chain::exec(&mut c, &json!({"op": "push", "like": {"t": "move", "m": proj::mv_json(m)}})));
                    evs.push(chain::exec(&mut c, &json!({"op": "calc"})));
                    evs.push(chain::exec(&mut c, &json!({"op": "set_auto", "filter": "relaxed"})));
                    if prop == "C17" {
                        evs.push(chain::exec(&mut c, &json!({"op": "walk", "steps": ["next", "prev", "end", "prev", "start", "next"]})));
                        evs.push(chain::exec(&mut c, &json!({"op": "text", "variants": chain::text_variants(&mut rng, true)})));
                    }
                }
                if sink.room() < evs.len() {
                    sink.rotate();
                }
                for e in evs {
                    sink.emit(&e);
                }
            }
            "C08" => {
                sink.emit(&notation::fen_board_event(&b));
                // ... and every board REACHED from it by one legal move (rights, marks and counters as make left them)
                for m in owlchess::movegen::legal::gen_all(&b).iter() {
                    if let Ok(Ok(nb)) = std::panic::catch_unwind(std::panic::AssertUnwindSafe(|| b.make_move(*m))) {
                        sink.emit(&notation::fen_board_event(&nb));
                    }
                }
                // ... and by the null move (the e.p. mark must be gone, the side flipped)
                if let Some(nb) = notation::null_reached(&b) {
                    sink.emit(&notation::fen_board_event(&nb));
                }
            }
            "C09" => {
                sink.emit(&notation::san_event(&mut rng, &b));
            }
            "C10" => {
                sink.emit(&notation::uci_event(&b));
            }
            "C18" => {
                for ev in misc::sym_events(&b) {
                    sink.emit(&ev);
                }
            }
            "C19" => {
                sink.emit(&misc::cap_event(&b));
            }
            _ => {
                let mut ev = query_one(&ctx, &b, prop);
                ev.as_object_mut().unwrap().insert("fam".into(), v["fam"].clone());
                sink.emit(&ev);
            }
        }
    }
    println!("GEN prop={} events={} rejected_by_library={}", prop, sink.finish(), rejected);
}

fn main() {
    let args: Vec<String> = std::env::args().collect();
    if args.len() < 2 {
        eprintln!("usage: harness gen <prop> <n> <seed> <outdir> [cap]");
        std::process::exit(2);
    }
    // quiet panics: they are data
    if std::env::var("HARNESS_LOUD").is_err() { std::panic::set_hook(Box::new(|_| {})); }
    match args[1].as_str() {
        "corpus-check" => {
            let mut bad = 0;
            for f in posgen::corpus_fens() {
                if let Err(e) = owlchess::Board::from_fen(f) {
                    println!("BAD {f}: {e}");
                    bad += 1;
                }
            }
            std::process::exit(if bad > 0 { 1 } else { 0 });
        }
        "exec-scripts" => {
            // ndjson of {start, ops} produced from TLC behaviours (spec/MC_ChainSim.tla)
            let cap: usize = args.get(4).map(|s| s.parse().unwrap()).unwrap_or(500);
            let mut sink = Sink::new(&PathBuf::from(&args[3]), cap);
            let text = std::fs::read_to_string(&args[2]).unwrap();
            let mut n = 0;
            for line in text.lines().filter(|l| !l.trim().is_empty()) {
                let script: Value = serde_json::from_str(line).unwrap();
                sink.begin(&json!({"script": n}));
                let evs = chain::exec_script(&script);
                if sink.room() < evs.len() {
                    sink.rotate();
                }
                for e in evs {
                    sink.emit(&e);
                }
                n += 1;
            }
            println!("GEN scripts={} events={}", n, sink.finish());
        }
        "gen-from" => {
            let cap: usize = args.get(5).map(|s| s.parse().unwrap()).unwrap_or(500);
            gen_from(&args[2], &PathBuf::from(&args[3]), &PathBuf::from(&args[4]), cap);
        }
        "regen" => {
            regen(&args[2], &PathBuf::from(&args[3]), &PathBuf::from(&args[4]));
        }
        "gen" => {
            let prop = &args[2];
            let n: usize = args[3].parse().unwrap();
            let seed: u64 = args[4].parse().unwrap();
            let out = PathBuf::from(&args[5]);
            let cap: usize = args.get(6).map(|s| s.parse().unwrap()).unwrap_or(500);
            match prop.as_str() {
                "C01" | "C03" | "C06" | "C07" | "C16" => gen_queries(prop, n, seed, &out, cap),
                "C02" | "C13" | "C14" | "C17" => {
                    let mut rng = StdRng::seed_from_u64(seed);
                    let mut sink = Sink::new(&out, cap);
                    gen_chain(prop, n, &mut rng, &mut sink);
                    println!("GEN prop={} events={}", prop, sink.finish());
                }
                "C08" | "C09" | "C10" | "C12" => {
                    let mut rng = StdRng::seed_from_u64(seed);
                    let mut sink = Sink::new(&out, cap);
                    gen_notation(prop, n, &mut rng, &mut sink);
                    println!("GEN prop={} events={}", prop, sink.finish());
                }
                "C11" | "C15" | "C18" | "C19" | "C20" => {
                    let mut rng = StdRng::seed_from_u64(seed);
                    let mut sink = Sink::new(&out, cap);
                    gen_misc(prop, n, &mut rng, &mut sink);
                    println!("GEN prop={} events={}", prop, sink.finish());
                }
                "C04" | "C05" => {
                    let mut rng = StdRng::seed_from_u64(seed);
                    let mut sink = Sink::new(&out, cap);
                    session::gen_sessions(prop, n, &mut rng, &mut sink);
                    println!("GEN prop={} events={}", prop, sink.finish());
                }
                _ => {
                    eprintln!("unknown property {prop}");
                    std::process::exit(2);
                }
            }
        }
        _ => {
            eprintln!("unknown command");
            std::process::exit(2);
        }
    }
}
