mod posgen;
mod proj;
mod query;
mod session;

use rand::rngs::StdRng;
use rand::SeedableRng;
use serde_json::{json, Value};
use std::fs::File;
use std::io::{BufWriter, Write};
use std::path::{Path, PathBuf};

/// Writes events into shards of at most `cap` lines: <dir>/shard_<k>.ndjson
pub struct Sink {
    dir: PathBuf,
    cap: usize,
    k: usize,
    n: usize,
    total: usize,
    w: Option<BufWriter<File>>,
    wal: PathBuf,
}

impl Sink {
    pub fn new(dir: &Path, cap: usize) -> Sink {
        std::fs::create_dir_all(dir).unwrap();
        Sink { dir: dir.to_path_buf(), cap, k: 0, n: 0, total: 0, w: None, wal: dir.join("wal.json") }
    }

    /// Write-ahead note: the input about to be handed to the library.  If the process dies
    /// (non-unwinding panic / abort), the orchestrator reports this input.
    pub fn begin(&mut self, what: &Value) {
        std::fs::write(&self.wal, what.to_string()).unwrap();
    }

    pub fn done(&mut self) {
        let _ = std::fs::remove_file(&self.wal);
    }

    pub fn emit(&mut self, ev: &Value) {
        if self.w.is_none() || self.n >= self.cap {
            self.rotate();
        }
        let w = self.w.as_mut().unwrap();
        writeln!(w, "{}", ev).unwrap();
        self.n += 1;
        self.total += 1;
    }

    /// Start a new shard now (sessions must not straddle shards).
    pub fn rotate(&mut self) {
        if let Some(mut w) = self.w.take() {
            w.flush().unwrap();
        }
        let p = self.dir.join(format!("shard_{:04}.ndjson", self.k));
        self.k += 1;
        self.n = 0;
        self.w = Some(BufWriter::new(File::create(p).unwrap()));
    }

    pub fn room(&self) -> usize {
        if self.w.is_none() { self.cap } else { self.cap.saturating_sub(self.n) }
    }

    pub fn finish(mut self) -> usize {
        if let Some(mut w) = self.w.take() {
            w.flush().unwrap();
        }
        self.done();
        self.total
    }
}

fn catch<F: FnOnce() -> Value + std::panic::UnwindSafe>(f: F) -> Value {
    match std::panic::catch_unwind(f) {
        Ok(v) => v,
        Err(e) => {
            let msg = if let Some(s) = e.downcast_ref::<&str>() {
                s.to_string()
            } else if let Some(s) = e.downcast_ref::<String>() {
                s.clone()
            } else {
                "panic".to_string()
            };
            json!({"ev": "panic", "msg": msg})
        }
    }
}

fn gen_queries(prop: &str, n: usize, seed: u64, out: &Path, cap: usize) {
    let mut rng = StdRng::seed_from_u64(seed);
    let ctx = query::Ctx::new();
    let mut sink = Sink::new(out, cap);
    let positions = posgen::mixed(&mut rng, n);
    for b in positions.iter() {
        sink.begin(&json!({"prop": prop, "fen": b.as_fen()}));
        let ev = query_one(&ctx, b, prop);
        sink.emit(&ev);
    }
    let total = sink.finish();
    println!("GEN prop={} events={}", prop, total);
}

fn query_one(ctx: &query::Ctx, b: &owlchess::Board, prop: &str) -> Value {
    let ev = catch(std::panic::AssertUnwindSafe(|| query::query_event(ctx, b, prop)));
    if ev["ev"] == "panic" {
        json!({"ev": "q", "pos": proj::raw_json(b.raw()), "panic": ev["msg"]})
    } else {
        ev
    }
}

/// Re-executes the input recorded in a replay file against the current code.
fn regen(prop: &str, input: &Path, out: &Path) {
    let rep: Value = serde_json::from_str(&std::fs::read_to_string(input).unwrap()).unwrap();
    let mut sink = Sink::new(out, 100000);
    let ev = &rep["event"];
    match ev["ev"].as_str() {
        Some("q") => {
            let raw = proj::raw_from_json(&ev["pos"]);
            let b = owlchess::Board::try_from(raw).expect("replay position must be valid");
            let ctx = query::Ctx::new();
            sink.begin(&json!({"prop": prop, "fen": b.as_fen()}));
            sink.emit(&query_one(&ctx, &b, prop));
        }
        _ => {
            if let Some(sess) = rep["session"].as_array() {
                sink.begin(&json!({"prop": prop, "session": "replay"}));
                for e in session::reexec(sess) {
                    sink.emit(&e);
                }
                // stateless extras are re-emitted as recorded inputs
            } else {
                eprintln!("regen: unsupported replay payload");
                std::process::exit(2);
            }
        }
    }
    sink.finish();
}

fn main() {
    let args: Vec<String> = std::env::args().collect();
    if args.len() < 2 {
        eprintln!("usage: harness gen <prop> <n> <seed> <outdir> [cap]");
        std::process::exit(2);
    }
    // quiet panics: they are data
    if std::env::var("HARNESS_LOUD").is_err() { std::panic::set_hook(Box::new(|_| {})); }
    match args[1].as_str() {
        "corpus-check" => {
            let mut bad = 0;
            for f in posgen::corpus_fens() {
                if let Err(e) = owlchess::Board::from_fen(f) {
                    println!("BAD {f}: {e}");
                    bad += 1;
                }
            }
            std::process::exit(if bad > 0 { 1 } else { 0 });
        }
        "regen" => {
            regen(&args[2], &PathBuf::from(&args[3]), &PathBuf::from(&args[4]));
        }
        "gen" => {
            let prop = &args[2];
            let n: usize = args[3].parse().unwrap();
            let seed: u64 = args[4].parse().unwrap();
            let out = PathBuf::from(&args[5]);
            let cap: usize = args.get(6).map(|s| s.parse().unwrap()).unwrap_or(500);
            match prop.as_str() {
                "C01" | "C03" | "C06" | "C07" | "C16" => gen_queries(prop, n, seed, &out, cap),
                "C04" | "C05" => {
                    let mut rng = StdRng::seed_from_u64(seed);
                    let mut sink = Sink::new(&out, cap);
                    session::gen_sessions(prop, n, &mut rng, &mut sink);
                    println!("GEN prop={} events={}", prop, sink.finish());
                }
                _ => {
                    eprintln!("unknown property {prop}");
                    std::process::exit(2);
                }
            }
        }
        _ => {
            eprintln!("unknown command");
            std::process::exit(2);
        }
    }
}
