//! C11 (validation), C15 (tables), C18 (symmetry), C19 (capacity / bounds), C20 (value types, bitboards).
use crate::notation::catch;
use crate::proj::*;
use crate::session::state_json;
use owlchess::bitboard::Bitboard;
use owlchess::board::{Board, RawBoard, ValidateError};
use owlchess::movegen::{legal, semilegal};
use owlchess::types::{CastlingRights, CastlingSide, Cell, Color, Coord, File, Piece, Rank};
use owlchess::verif_hooks as hk;
use rand::rngs::StdRng;
use rand::seq::SliceRandom;
use rand::Rng;
use serde_json::{json, Value};
use std::str::FromStr;

// ------------------------------------------------------------------------------------------------
// C11
// ------------------------------------------------------------------------------------------------
pub fn rawval_event(r: &RawBoard) -> Value {
    let res = match catch(|| Board::try_from(*r)) {
        Ok(Ok(b)) => {
            let again = match Board::try_from(*b.raw()) {
                Ok(b2) => state_json(&b2) == state_json(&b),
                Err(_) => false,
            };
            let mut s = state_json(&b);
            s["ok"] = json!(true);
            s["idempotent"] = json!(again);
            s["by_ref"] = json!(Board::try_from(r).map(|x| state_json(&x) == state_json(&b)).unwrap_or(false));
            s
        }
        Ok(Err(e)) => {
            let err = match e {
                ValidateError::InvalidEnpassant(c) => json!(["InvalidEnpassant", c.index()]),
                ValidateError::TooManyPieces(c) => json!(["TooManyPieces", color_ix(c)]),
                ValidateError::NoKing(c) => json!(["NoKing", color_ix(c)]),
                ValidateError::TooManyKings(c) => json!(["TooManyKings", color_ix(c)]),
                ValidateError::InvalidPawn(c) => json!(["InvalidPawn", c.index()]),
                ValidateError::OpponentKingAttacked => json!(["OpponentKingAttacked", 0]),
            };
            json!({"ok": false, "err": err})
        }
        Err(()) => json!({"ok": false, "panic": true, "err": ["panic", 0]}),
    };
    json!({"ev": "rawval", "raw": raw_json(r), "res": res})
}

/// raw boards near the validity boundary: mutations of valid positions and arbitrary boards
pub fn raw_stream(rng: &mut StdRng, valid: &[Board], n: usize) -> Vec<RawBoard> {
    let mut out = Vec::new();
    while out.len() < n {
        let b = valid.choose(rng).unwrap();
        let mut r = *b.raw();
        match rng.gen_range(0..14) {
            0 => {
                // arbitrary board
                r = crate::notation::random_raw(rng);
                if rng.gen_bool(0.5) {
                    r.ep_source = Some(Coord::from_index(rng.gen_range(0..64)));
                }
            }
            1 => {
                // remove a king
                for i in 0..64 {
                    if r.cells[i].piece() == Some(Piece::King) && rng.gen_bool(0.5) {
                        r.cells[i] = Cell::EMPTY;
                        break;
                    }
                }
            }
            2 => {
                // add a king
                let i = rng.gen_range(0..64);
                let c = if rng.gen_bool(0.5) { Color::White } else { Color::Black };
                r.cells[i] = Cell::from_parts(c, Piece::King);
            }
            3 => {
                // pawn on first / last rank
                let i = if rng.gen_bool(0.5) { rng.gen_range(0..8) } else { rng.gen_range(56..64) };
                if r.cells[i].piece() != Some(Piece::King) {
                    let c = if rng.gen_bool(0.5) { Color::White } else { Color::Black };
                    r.cells[i] = Cell::from_parts(c, Piece::Pawn);
                }
            }
            4 => {
                // e.p. mark anywhere
                r.ep_source = Some(Coord::from_index(rng.gen_range(0..64)));
            }
            5 => {
                // e.p. mark on the right rank, structure possibly missing
                let rank = if r.side == Color::White { 3 } else { 4 };
                let f = rng.gen_range(0..8);
                r.ep_source = Some(Coord::from_index(rank * 8 + f));
                if rng.gen_bool(0.5) && r.cells[rank * 8 + f].piece() != Some(Piece::King) {
                    r.cells[rank * 8 + f] = Cell::from_parts(r.side.inv(), Piece::Pawn);
                }
                if rng.gen_bool(0.3) {
                    let pass = if r.side == Color::White { 2 * 8 + f } else { 5 * 8 + f };
                    if r.cells[pass].piece() != Some(Piece::King) {
                        r.cells[pass] = Cell::from_index(rng.gen_range(0..13));
                    }
                }
            }
            6 => r.castling = CastlingRights::from_index(rng.gen_range(0..16)),
            7 => {
                // all rights, then disturb home squares
                r.castling = CastlingRights::FULL;
                for sq in [0usize, 4, 7, 56, 60, 63] {
                    if rng.gen_bool(0.3) && r.cells[sq].piece() != Some(Piece::King) {
                        r.cells[sq] = Cell::from_index(rng.gen_range(0..13));
                    }
                }
            }
            8 => {
                // many men of one colour
                let c = if rng.gen_bool(0.5) { Color::White } else { Color::Black };
                let k = rng.gen_range(10..20);
                let mut placed = 0;
                for i in 8..56 {
                    if r.cells[i].is_free() && placed < k {
                        r.cells[i] = Cell::from_parts(c, Piece::Knight);
                        placed += 1;
                    }
                }
            }
            9 => {
                r.side = r.side.inv();
            }
            10 => {
                // drop a piece somewhere (may put the side not to move in check)
                let i = rng.gen_range(0..64);
                if r.cells[i].piece() != Some(Piece::King) {
                    r.cells[i] = Cell::from_index(rng.gen_range(1..13));
                }
            }
            11 => {
                // exactly 16 / 17 men
                let c = if rng.gen_bool(0.5) { Color::White } else { Color::Black };
                let have = r.cells.iter().filter(|x| x.color() == Some(c)).count();
                let want = 16 + rng.gen_range(0..2) as usize;
                let mut need = want.saturating_sub(have);
                for i in 8..56 {
                    if need > 0 && r.cells[i].is_free() {
                        r.cells[i] = Cell::from_parts(c, Piece::Bishop);
                        need -= 1;
                    }
                }
            }
            _ => {}
        }
        if rng.gen_bool(0.3) {
            // second mutation: toggle a right
            r.castling = CastlingRights::from_index(r.castling.index() ^ (1 << rng.gen_range(0..4)));
        }
        out.push(r);
    }
    out
}

// ------------------------------------------------------------------------------------------------
// C15
// ------------------------------------------------------------------------------------------------
fn bb_of(squares: &[usize]) -> Bitboard {
    let mut b = Bitboard::EMPTY;
    for s in squares {
        b.set(Coord::from_index(*s));
    }
    b
}

fn ray_mask(sq: usize, rook: bool) -> Vec<usize> {
    let dirs: &[(i32, i32)] = if rook { &[(0, 1), (0, -1), (1, 0), (-1, 0)] } else { &[(1, 1), (1, -1), (-1, 1), (-1, -1)] };
    let (f, r) = ((sq % 8) as i32, (sq / 8) as i32);
    let mut v = Vec::new();
    for (df, dr) in dirs {
        let (mut x, mut y) = (f + df, r + dr);
        while (0..8).contains(&(x + df)) && (0..8).contains(&(y + dr)) {
            v.push((y * 8 + x) as usize);
            x += df;
            y += dr;
        }
    }
    v
}

/// All subsets of the relevant mask (complete = true) or a sample; each also with noise outside the mask.
pub fn magic_events(rng: &mut StdRng, sq: usize, rook: bool, complete: bool, chunk: usize) -> Vec<Value> {
    let mask = ray_mask(sq, rook);
    let n = mask.len();
    let total = 1usize << n;
    let c = Coord::from_index(sq);
    let mut entries = Vec::new();
    let mut push = |occ: Bitboard| {
        let att = if rook { hk::attack_rook(c, occ) } else { hk::attack_bishop(c, occ) };
        entries.push(json!([bb_json(occ), bb_json(att)]));
    };
    let subs: Vec<usize> = if complete { (0..total).collect() } else { (0..160).map(|_| rng.gen_range(0..total)).chain([0, total - 1]).collect() };
    for sub in subs {
        let sqs: Vec<usize> = (0..n).filter(|i| sub & (1 << i) != 0).map(|i| mask[i]).collect();
        let occ = bb_of(&sqs);
        push(occ);
        // noise outside the mask (edge squares of the rays included): the result must follow the geometry
        let variants = if std::env::var("HARNESS_DEEP").is_ok() { 5 } else { 1 };
        for _ in 0..variants {
            let mut noisy = occ;
            for _ in 0..rng.gen_range(1..12) {
                let s = rng.gen_range(0..64);
                if !mask.contains(&s) {
                    noisy.set(Coord::from_index(s));
                }
            }
            push(noisy);
        }
    }
    // random full occupancies
    for _ in 0..16 {
        push(Bitboard::from_raw(rng.gen::<u64>() & rng.gen::<u64>()));
        push(Bitboard::from_raw(rng.gen::<u64>() | rng.gen::<u64>()));
    }
    push(Bitboard::FULL);
    push(Bitboard::EMPTY);
    entries
        .chunks(chunk)
        .map(|ch| json!({"ev": "magic", "piece": if rook { "rook" } else { "bishop" }, "sq": sq, "entries": ch}))
        .collect()
}

pub fn leaper_event() -> Value {
    let all = |f: &dyn Fn(Coord) -> Bitboard| -> Value { Value::Array(Coord::iter().map(|c| bb_json(f(c))).collect()) };
    json!({"ev": "leapers",
           "king": all(&|c| hk::attack_king(c)),
           "knight": all(&|c| hk::attack_knight(c)),
           "wpawn": all(&|c| hk::attack_pawn(Color::White, c)),
           "bpawn": all(&|c| hk::attack_pawn(Color::Black, c))})
}

pub fn between_event(src: usize) -> Value {
    let a = Coord::from_index(src);
    let row = |f: &dyn Fn(Coord) -> Value| -> Value { Value::Array(Coord::iter().map(f).collect()) };
    json!({"ev": "between", "src": src,
           "bishop_strict": row(&|b| bb_json(hk::between_bishop_strict(a, b))),
           "rook_strict": row(&|b| bb_json(hk::between_rook_strict(a, b))),
           "bishop_valid": row(&|b| json!(hk::between_is_bishop_valid(a, b))),
           "rook_valid": row(&|b| json!(hk::between_is_rook_valid(a, b)))})
}

// ------------------------------------------------------------------------------------------------
// C18
// ------------------------------------------------------------------------------------------------
fn swap_cell(c: Cell) -> Cell {
    match (c.color(), c.piece()) {
        (Some(col), Some(p)) => Cell::from_parts(col.inv(), p),
        _ => Cell::EMPTY,
    }
}

fn bundle(b: &Board) -> Value {
    // successors of every legal move: symmetry must also hold for what moves DO (rights, clocks, marks)
    let succ: Vec<Value> = legal::gen_all(b)
        .iter()
        .filter_map(|m| catch(|| b.make_move(*m)).ok().and_then(|r| r.ok()).map(|nb| json!([mv_json(*m), raw_json(nb.raw())])))
        .collect();
    json!({"pos": raw_json(b.raw()), "legal": mvs_json(&legal::gen_all(b)), "check": b.is_check(),
           "outcome": outcome_json(&b.calc_outcome()), "has_legal": b.has_legal_moves(), "succ": succ})
}

pub fn sym_events(b: &Board) -> Vec<Value> {
    let r = b.raw();
    let mut out = Vec::new();
    // top-bottom mirror with colours swapped, built through the public API only
    let mut m = RawBoard::empty();
    for c in Coord::iter() {
        m.put(c.flipped_rank(), swap_cell(r.get(c)));
    }
    m.side = r.side.inv();
    let mut cr = CastlingRights::EMPTY;
    for col in [Color::White, Color::Black] {
        for s in [CastlingSide::King, CastlingSide::Queen] {
            if r.castling.has(col, s) {
                cr.set(col.inv(), s);
            }
        }
    }
    m.castling = cr;
    m.ep_source = r.ep_source.map(|c| c.flipped_rank());
    m.move_counter = r.move_counter;
    m.move_number = r.move_number;
    let mb = Board::try_from(m);
    let mut ev = json!({"ev": "sym", "kind": "mirror", "a": bundle(b), "built": raw_json(&m)});
    match &mb {
        Ok(x) => ev["b"] = bundle(x),
        Err(_) => ev["rejected"] = json!(true),
    }
    out.push(ev);
    // left-right flop (only without castling rights)
    if r.castling == CastlingRights::EMPTY {
        let mut f = RawBoard::empty();
        for c in Coord::iter() {
            f.put(c.flipped_file(), r.get(c));
        }
        f.side = r.side;
        f.ep_source = r.ep_source.map(|c| c.flipped_file());
        f.move_counter = r.move_counter;
        f.move_number = r.move_number;
        let fb = Board::try_from(f);
        let mut ev = json!({"ev": "sym", "kind": "flop", "a": bundle(b), "built": raw_json(&f)});
        match &fb {
            Ok(x) => ev["b"] = bundle(x),
            Err(_) => ev["rejected"] = json!(true),
        }
        out.push(ev);
    }
    out
}

// ------------------------------------------------------------------------------------------------
// C19
// ------------------------------------------------------------------------------------------------
pub fn semi_count(b: &Board) -> usize {
    let mut v = Vec::new();
    semilegal::gen_all_into(b, &mut v);
    v.len()
}

/// Every (kind, man, source, destination) handed to the checked constructor `Move::new`: the tables behind
/// well-formedness (alignment predicates, leaper sets) are indexed by EVERY pair of squares here.
pub fn wf_sweep_event() -> Value {
    use owlchess::moves::Move;
    let mut accepted = Vec::new();
    let mut panics = 0usize;
    for k in 1..KINDS.len() {
        for c in 1..13usize {
            for s in 0..64usize {
                for d in 0..64usize {
                    match catch(|| Move::new(KINDS[k], Cell::from_index(c), Coord::from_index(s), Coord::from_index(d)).is_ok()) {
                        Ok(true) => accepted.push(json!([k, c, s, d])),
                        Ok(false) => {}
                        Err(()) => panics += 1,
                    }
                }
            }
        }
    }
    json!({"ev": "wf_sweep", "accepted": accepted, "panics": panics, "tried": 9 * 12 * 64 * 64})
}

pub fn cap_event(b: &Board) -> Value {
    let n = semi_count(b);
    let mut ev = json!({"ev": "cap", "pos": raw_json(b.raw()), "semi_len": n});
    match catch(|| {
        let l = semilegal::gen_all(b);
        let lg = legal::gen_all(b);
        let c = semilegal::gen_capture(b).len() + semilegal::gen_simple(b).len();
        // fixed-capacity text buffers: every legal move printed in all three notations
        for m in lg.iter() {
            for st in [owlchess::moves::Style::Uci, owlchess::moves::Style::San, owlchess::moves::Style::SanUtf8] {
                if let Ok(t) = m.styled(b, st) {
                    let _ = t.to_string();
                }
            }
        }
        let _ = (b.as_fen(), b.pretty(owlchess::board::PrettyStyle::Utf8).to_string());
        (l.len(), l.capacity(), lg.len(), c, b.has_legal_moves())
    }) {
        Ok((l, cap, lg, c, _)) => {
            ev["list_len"] = json!(l);
            ev["capacity"] = json!(cap);
            ev["legal_len"] = json!(lg);
            ev["parts_len"] = json!(c);
        }
        Err(()) => ev["panic"] = json!(true),
    }
    ev
}

/// Hill climbing on the number of semilegal moves, using the safe, unbounded sink.
pub fn climb(rng: &mut StdRng, start: &Board, iters: usize) -> Board {
    let mut best = start.clone();
    let mut best_n = semi_count(&best);
    for _ in 0..iters {
        let mut r = *best.raw();
        let side = r.side;
        match rng.gen_range(0..5) {
            0 | 1 => {
                // move one own man
                let own: Vec<usize> = (0..64).filter(|i| r.cells[*i].color() == Some(side)).collect();
                let s = *own.choose(rng).unwrap();
                let d = rng.gen_range(0..64);
                if r.cells[d].is_free() {
                    r.cells[d] = r.cells[s];
                    r.cells[s] = Cell::EMPTY;
                }
            }
            2 => {
                // add or upgrade a man to a queen (at most 16)
                let cnt = r.cells.iter().filter(|c| c.color() == Some(side)).count();
                let d = rng.gen_range(0..64);
                if r.cells[d].is_free() && cnt < 16 {
                    r.cells[d] = Cell::from_parts(side, Piece::Queen);
                } else if r.cells[d].color() == Some(side) && r.cells[d].piece() != Some(Piece::King) {
                    r.cells[d] = Cell::from_parts(side, *[Piece::Queen, Piece::Rook, Piece::Knight, Piece::Bishop].choose(rng).unwrap());
                }
            }
            3 => {
                // move the enemy king / remove an enemy man
                let en: Vec<usize> = (0..64).filter(|i| r.cells[*i].color() == Some(side.inv())).collect();
                let s = *en.choose(rng).unwrap();
                if r.cells[s].piece() == Some(Piece::King) {
                    let d = rng.gen_range(0..64);
                    if r.cells[d].is_free() {
                        r.cells[d] = r.cells[s];
                        r.cells[s] = Cell::EMPTY;
                    }
                } else {
                    r.cells[s] = Cell::EMPTY;
                }
            }
            _ => {
                // enemy men as capture targets
                let d = rng.gen_range(8..56);
                let cnt = r.cells.iter().filter(|c| c.color() == Some(side.inv())).count();
                if r.cells[d].is_free() && cnt < 16 {
                    r.cells[d] = Cell::from_parts(side.inv(), Piece::Pawn);
                }
            }
        }
        if let Ok(nb) = Board::try_from(r) {
            let n = semi_count(&nb);
            if n >= best_n {
                best = nb;
                best_n = n;
            }
        }
    }
    best
}

// ------------------------------------------------------------------------------------------------
// C20
// ------------------------------------------------------------------------------------------------
fn accepted<F: Fn(usize) + std::panic::RefUnwindSafe>(limit: usize, f: F) -> Vec<usize> {
    (0..limit).filter(|i| std::panic::catch_unwind(|| f(*i)).is_ok()).collect()
}

pub fn type_events() -> Vec<Value> {
    let mut out = Vec::new();
    // index constructors: which indices are accepted (panic = rejected)
    out.push(json!({"ev": "t_index",
        "file": accepted(300, |i| { File::from_index(i); }),
        "rank": accepted(300, |i| { Rank::from_index(i); }),
        "coord": accepted(300, |i| { Coord::from_index(i); }),
        "piece": accepted(300, |i| { Piece::from_index(i); }),
        "cell": accepted(300, |i| { Cell::from_index(i); }),
        "rights": accepted(300, |i| { CastlingRights::from_index(i); }),
    }));
    let files: Vec<Value> = File::iter().map(|f| json!({"index": f.index(), "ch": f.as_char() as u32, "text": text_json(&f.to_string()),
        "from_index": File::from_index(f.index()) == f, "from_char": File::from_char(f.as_char()) == Some(f)})).collect();
    let ranks: Vec<Value> = Rank::iter().map(|r| json!({"index": r.index(), "ch": r.as_char() as u32, "text": text_json(&r.to_string()),
        "from_index": Rank::from_index(r.index()) == r, "from_char": Rank::from_char(r.as_char()) == Some(r)})).collect();
    let coords: Vec<Value> = Coord::iter().map(|c| json!({"index": c.index(), "file": c.file().index(), "rank": c.rank().index(),
        "text": text_json(&c.to_string()), "from_index": Coord::from_index(c.index()) == c,
        "from_parts": Coord::from_parts(c.file(), c.rank()) == c,
        "from_str": Coord::from_str(&c.to_string()) == Ok(c),
        "flipped_rank": c.flipped_rank().index(), "flipped_file": c.flipped_file().index(),
        "diag": c.diag(), "antidiag": c.antidiag()})).collect();
    let pieces: Vec<Value> = Piece::iter().map(|p| json!({"index": p.index(), "from_index": Piece::from_index(p.index()) == p})).collect();
    let cells: Vec<Value> = Cell::iter().map(|c| json!({"index": c.index(),
        "color": c.color().map(|x| color_ix(x) as i32).unwrap_or(-1), "piece": c.piece().map(|p| p.index() as i32).unwrap_or(-1),
        "ch": c.as_char() as u32, "utf8": c.as_utf8_char() as u32, "text": text_json(&c.to_string()),
        "from_index": Cell::from_index(c.index()) == c, "from_char": Cell::from_char(c.as_char()) == Some(c),
        "from_str": Cell::from_str(&c.to_string()) == Ok(c), "free": c.is_free(), "occupied": c.is_occupied(),
        "from_parts": match (c.color(), c.piece()) { (Some(a), Some(b)) => Cell::from_parts(a, b) == c, _ => c == Cell::EMPTY }})).collect();
    let colors: Vec<Value> = [Color::White, Color::Black].iter().map(|c| json!({"index": color_ix(*c), "inv": color_ix(c.inv()),
        "ch": c.as_char() as u32, "text": text_json(&c.to_string()), "long": text_json(c.as_long_str()),
        "from_char": Color::from_char(c.as_char()) == Some(*c), "from_str": Color::from_str(&c.to_string()) == Ok(*c)})).collect();
    let rights: Vec<Value> = (0..16).map(|i| { let r = CastlingRights::from_index(i); json!({"index": r.index(),
        "text": text_json(&r.to_string()), "from_str": CastlingRights::from_str(&r.to_string()) == Ok(r),
        "has": [r.has(Color::White, CastlingSide::Queen), r.has(Color::White, CastlingSide::King), r.has(Color::Black, CastlingSide::Queen), r.has(Color::Black, CastlingSide::King)],
        "has_color": [r.has_color(Color::White), r.has_color(Color::Black)],
        "with": [r.with(Color::White, CastlingSide::Queen).index(), r.with(Color::White, CastlingSide::King).index(), r.with(Color::Black, CastlingSide::Queen).index(), r.with(Color::Black, CastlingSide::King).index()],
        "without": [r.without(Color::White, CastlingSide::Queen).index(), r.without(Color::White, CastlingSide::King).index(), r.without(Color::Black, CastlingSide::Queen).index(), r.without(Color::Black, CastlingSide::King).index()]}) }).collect();
    out.push(json!({"ev": "t_values", "files": files, "ranks": ranks, "coords": coords, "pieces": pieces, "cells": cells, "colors": colors, "rights": rights}));
    // from_char over many characters
    let mut chars: Vec<u32> = (0..0x300).collect();
    chars.extend([0x2654, 0x2659, 0x265a, 0x265f, 0x1f600, 0x10ffff, 0x1061, 0x2070, 0xff41, 0xff11]);
    for block in chars.chunks(256) {
        let rows: Vec<Value> = block.iter().filter_map(|u| char::from_u32(*u)).map(|c| json!([c as u32,
            File::from_char(c).map(|f| f.index() as i32).unwrap_or(-1), Rank::from_char(c).map(|f| f.index() as i32).unwrap_or(-1),
            Cell::from_char(c).map(|f| f.index() as i32).unwrap_or(-1), Color::from_char(c).map(|f| color_ix(f) as i32).unwrap_or(-1)])).collect();
        out.push(json!({"ev": "t_chars", "rows": rows}));
    }
    // every 1- and 2-character string over printable ASCII + multi-byte samples: accepted ones with their values
    let mut alpha: Vec<char> = (32u8..127).map(|b| b as char).collect();
    alpha.extend(['é', '€', '😀', '\u{150}']);
    let mut acc = Vec::new();
    let mut tried = 0usize;
    let mut try_s = |s: &str, acc: &mut Vec<Value>| {
        tried += 1;
        let r = catch(|| (Coord::from_str(s).ok().map(|c| c.index()), Color::from_str(s).ok().map(color_ix),
                          Cell::from_str(s).ok().map(|c| c.index()), CastlingRights::from_str(s).ok().map(|c| c.index())));
        match r {
            Ok((a, b, c, d)) => {
                if a.is_some() || b.is_some() || c.is_some() || d.is_some() {
                    acc.push(json!({"text": text_json(s), "coord": a.map(|x| x as i32).unwrap_or(-1), "color": b.map(|x| x as i32).unwrap_or(-1),
                                    "cell": c.map(|x| x as i32).unwrap_or(-1), "rights": d.map(|x| x as i32).unwrap_or(-1)}));
                }
            }
            Err(()) => acc.push(json!({"text": text_json(s), "panic": true})),
        }
    };
    for a in &alpha {
        try_s(&a.to_string(), &mut acc);
        for b in &alpha {
            try_s(&format!("{a}{b}"), &mut acc);
        }
    }
    for s in ["KQkq", "kqKQ", "KQk", "Kkq", "Qq", "KK", "KQkqK", "", "--", "qkQK"] {
        try_s(s, &mut acc);
    }
    out.push(json!({"ev": "t_strings", "tried": tried, "alphabet": alpha.iter().map(|c| *c as u32).collect::<Vec<_>>(), "accepted": acc}));
    // named constants and geometry
    use owlchess::bitboard::Bitboard as BB;
    let _ = BB::EMPTY;
    out
}

/// Small value-level API of moves, rights and raw boards (all total functions over tiny domains).
pub fn moveapi_event() -> Value {
    use owlchess::moves::{Move, MoveKind};
    let mut castlings = Vec::new();
    for c in [Color::White, Color::Black] {
        for sd in [CastlingSide::Queen, CastlingSide::King] {
            castlings.push(mv_json(Move::from_castling(c, sd)));
        }
    }
    let kinds: Vec<Value> = KINDS.iter().map(|k| json!({"kind": *k as u8,
        "promote": k.promote().map(|p| p.index() as i32).unwrap_or(-1),
        "matches": Piece::iter().map(|p| k.matches_piece(p)).collect::<Vec<_>>()})).collect();
    let mut unset = Vec::new();
    for i in 0..16 {
        let mut row = Vec::new();
        for c in [Color::White, Color::Black] {
            let mut r = CastlingRights::from_index(i);
            r.unset_color(c);
            row.push(r.index());
        }
        unset.push(row);
    }
    // ep_dest for every mark and side; get2/put2 against get/put on every square
    let mut epd = Vec::new();
    for c in [Color::White, Color::Black] {
        let mut r = RawBoard::empty();
        r.side = c;
        let mut row = vec![r.ep_dest().map(|x| x.index() as i32).unwrap_or(-1)];
        for s in 0..64 {
            r.ep_source = Some(Coord::from_index(s));
            row.push(r.ep_dest().map(|x| x.index() as i32).unwrap_or(-1));
        }
        epd.push(row);
    }
    let mut put2 = Vec::new();
    for f in File::iter() {
        for rk in Rank::iter() {
            let mut r = RawBoard::empty();
            let cell = Cell::from_index(1 + (f.index() * 8 + rk.index()) % 12);
            r.put2(f, rk, cell);
            let at: Vec<usize> = (0..64).filter(|i| r.cells[*i] != Cell::EMPTY).collect();
            put2.push(json!({"file": f.index(), "rank": rk.index(), "cell": cell.index(), "at": at,
                             "get2": r.get2(f, rk).index(), "get": r.get(Coord::from_parts(f, rk)).index()}));
        }
    }
    let ini = owlchess::MoveChain::new_initial();
    json!({"ev": "t_moveapi", "castlings": castlings, "kinds": kinds, "unset_color": unset, "ep_dest": epd, "put2": put2,
           "new_initial": {"start": raw_json(ini.startpos()), "last": raw_json(ini.last().raw()), "len": ini.len(),
                           "eq_new": ini == owlchess::MoveChain::new(Board::initial()), "outcome_none": ini.outcome().is_none()},
           "initial": raw_json(Board::initial().raw()), "raw_initial": raw_json(&RawBoard::initial()), "raw_empty": raw_json(&RawBoard::empty()),
           "null_move": mv_json(Move::NULL), "null_uci": text_json(&Move::NULL.to_string()),
           "kind_null_default": MoveKind::default() as u8})
}

pub fn outcomes_event() -> Value {
    use owlchess::types::{DrawReason as D, GameStatus, Outcome, OutcomeFilter as F, WinReason as W};
    let mut all: Vec<Outcome> = Vec::new();
    for r in [D::Stalemate, D::InsufficientMaterial, D::Moves75, D::Repeat5, D::Moves50, D::Repeat3, D::Agreement, D::Unknown] {
        all.push(Outcome::Draw(r));
    }
    for c in [Color::White, Color::Black] {
        for r in [W::Checkmate, W::TimeForfeit, W::InvalidMove, W::EngineError, W::Resign, W::Abandon, W::Unknown] {
            all.push(Outcome::Win { side: c, reason: r });
        }
    }
    let rows: Vec<Value> = all.iter().map(|o| json!({"o": outcome_json(&Some(*o)), "text": text_json(&o.to_string()),
        "status": text_json(&GameStatus::from(*o).to_string()),
        "winner": o.winner().map(|c| color_ix(c) as i32).unwrap_or(-1), "is_force": o.is_force(),
        "passes": [o.passes(F::Force), o.passes(F::Strict), o.passes(F::Relaxed)]})).collect();
    json!({"ev": "t_outcomes", "rows": rows, "running": text_json(&GameStatus::from(None).to_string())})
}

pub fn consts_event() -> Value {
    use owlchess_base::bitboard_consts as bc;
    use owlchess_base::geometry as g;
    let per_color = |f: &dyn Fn(Color) -> Value| -> Value { json!([f(Color::White), f(Color::Black)]) };
    json!({"ev": "t_consts",
        "rank": Rank::iter().map(|r| bb_json(bc::rank(r))).collect::<Vec<_>>(),
        "file": File::iter().map(|f| bb_json(bc::file(f))).collect::<Vec<_>>(),
        "diag": bc::DIAG.iter().map(|b| bb_json(*b)).collect::<Vec<_>>(),
        "antidiag": bc::ANTIDIAG.iter().map(|b| bb_json(*b)).collect::<Vec<_>>(),
        "light": bb_json(bc::LIGHT_SQUARES), "dark": bb_json(bc::DARK_SQUARES),
        "castling_rank": per_color(&|c| json!(g::castling_rank(c).index())),
        "double_src": per_color(&|c| json!(g::double_move_src_rank(c).index())),
        "double_dst": per_color(&|c| json!(g::double_move_dst_rank(c).index())),
        "promote_src": per_color(&|c| json!(g::promote_src_rank(c).index())),
        "promote_dst": per_color(&|c| json!(g::promote_dst_rank(c).index())),
        "ep_src": per_color(&|c| json!(g::enpassant_src_rank(c).index())),
        "ep_dst": per_color(&|c| json!(g::enpassant_dst_rank(c).index())),
        "fwd": per_color(&|c| json!(g::pawn_forward_delta(c))),
        "left": per_color(&|c| json!(g::pawn_left_delta(c))),
        "right": per_color(&|c| json!(g::pawn_right_delta(c))),
    })
}

pub fn geometry_event() -> Value {
    // owlchess re-exports only part of owlchess_base; constants are reached through Board-independent API
    let mut shifts = Vec::new();
    for c in Coord::iter() {
        let mut row = Vec::new();
        for df in -20i32..=20 {
            for dr in -20i32..=20 {
                row.push(c.shift(df as isize, dr as isize).map(|x| x.index() as i32).unwrap_or(-1));
            }
        }
        shifts.push(json!(row));
    }
    let mut adds = Vec::new();
    for c in Coord::iter() {
        let ok: Vec<i32> = (-70i32..=70).filter(|d| std::panic::catch_unwind(|| c.add(*d as isize)).map(|r| r.index() as i32 == c.index() as i32 + d).unwrap_or(false)).collect();
        adds.push(json!(ok));
    }
    // extreme deltas: anything that leaves the board must give None, however large
    let mut big: Vec<isize> = vec![isize::MIN, isize::MIN / 2, isize::MIN / 4, isize::MIN / 8, isize::MAX, isize::MAX / 2, isize::MAX / 4,
                            isize::MAX / 8 + 1, 1 << 61, -(1 << 61), (1 << 61) + 1, 1 << 32];
    // ... and the nearer ones: everything from 8 files/ranks on leaves the board too (nibble / byte / word carries)
    for m in [8isize, 9, 15, 16, 17, 23, 24, 31, 32, 33, 63, 64, 65, 100, 127, 128, 129, 255, 256, 257, 1000, 32767, 32768, 65535, 65536,
              (1 << 31) - 1, 1 << 31, (1 << 31) + 1] {
        big.push(m);
        big.push(-m);
    }
    let mut extreme = 0usize;
    let mut extreme_some = Vec::new();
    for c in Coord::iter() {
        for a in big.iter() {
            for b in [-1isize, 0, 1, 8, -8] {
                for (df, dr) in [(*a, b), (b, *a), (*a, *a)] {
                    extreme += 1;
                    if let Ok(Some(x)) = std::panic::catch_unwind(|| c.shift(df, dr)) {
                        extreme_some.push(json!([c.index(), x.index()]));
                    }
                }
            }
        }
    }
    json!({"ev": "t_geometry", "shift_range": 20, "shifts": shifts, "adds": adds, "extreme_tried": extreme, "extreme_on_board": extreme_some})
}

/// The bitboard iterator as a Rust iterator: every adaptor must behave like the same call on the ascending
/// vector of squares (the model), including exhaustion after a failed nth().
pub fn iter_events(rng: &mut StdRng) -> Vec<Value> {
    let mut rows = Vec::new();
    let mut sets: Vec<Bitboard> = vec![Bitboard::EMPTY, Bitboard::FULL, Bitboard::from_raw(1), Bitboard::from_raw(1 << 63)];
    for _ in 0..120 {
        sets.push(Bitboard::from_raw(rng.gen::<u64>() & rng.gen::<u64>() & rng.gen::<u64>()));
        sets.push(Bitboard::from_raw(rng.gen::<u64>()));
    }
    for x in sets {
        for n in [0usize, 1, 2, 3, 5, 9, 63, 64, 70] {
            let mut it = x.into_iter();
            let hint = it.size_hint();
            let a = it.nth(n).map(|c| c.index() as i32).unwrap_or(-1);
            let b = it.next().map(|c| c.index() as i32).unwrap_or(-1);
            let rest = it.count();
            let skipped: Vec<usize> = x.into_iter().skip(n).map(|c| c.index()).collect();
            let stepped: Vec<usize> = x.into_iter().step_by(n + 1).map(|c| c.index()).collect();
            let taken: Vec<usize> = x.into_iter().take(n).map(|c| c.index()).collect();
            rows.push(json!({"x": bb_json(x), "n": n, "nth": a, "then_next": b, "then_count": rest,
                             "hint_lo": hint.0, "hint_hi": hint.1.map(|h| h as i64).unwrap_or(-1),
                             "count": x.into_iter().count(), "last": x.into_iter().last().map(|c| c.index() as i32).unwrap_or(-1),
                             "skip": skipped, "step_by": stepped, "take": taken,
                             "min": x.into_iter().map(|c| c.index() as i32).min().unwrap_or(-1),
                             "max": x.into_iter().map(|c| c.index() as i32).max().unwrap_or(-1)}));
        }
    }
    rows.chunks(256).map(|ch| json!({"ev": "bb_iter", "rows": ch})).collect()
}

pub fn bitboard_events(rng: &mut StdRng) -> Vec<Value> {
    let mut out = Vec::new();
    // binary algebra on all pairs of subsets of a 6-square universe
    let uni = [0usize, 9, 18, 35, 56, 63];
    let sub = |m: usize, u: &[usize]| -> Vec<usize> { (0..u.len()).filter(|i| m & (1 << i) != 0).map(|i| u[i]).collect() };
    let mut rows = Vec::new();
    for a in 0..64usize {
        for b in 0..64usize {
            let (x, y) = (bb_of(&sub(a, &uni)), bb_of(&sub(b, &uni)));
            let mut z = x;
            z |= y;
            let mut w = x;
            w &= y;
            let mut v = x;
            v ^= y;
            rows.push(json!([bb_json(x), bb_json(y), bb_json(x | y), bb_json(x & y), bb_json(x ^ y), bb_json(z), bb_json(w), bb_json(v), x == y]));
        }
    }
    for ch in rows.chunks(512) {
        out.push(json!({"ev": "bb_binary", "rows": ch}));
    }
    // unary operations on all subsets of a 12-square universe + random 64-bit sets
    let uni12 = [0usize, 1, 7, 8, 14, 27, 28, 36, 49, 55, 56, 63];
    let mut sets: Vec<Bitboard> = (0..4096usize).map(|m| bb_of(&sub(m, &uni12))).collect();
    for _ in 0..400 {
        sets.push(Bitboard::from_raw(rng.gen()));
    }
    sets.push(Bitboard::FULL);
    sets.push(Bitboard::EMPTY);
    let mut rows = Vec::new();
    for x in sets {
        let c = Coord::from_index(rng.gen_range(0..64));
        let mut s1 = x;
        s1.set(c);
        let mut s2 = x;
        s2.unset(c);
        let by = rng.gen_range(0..64usize);
        rows.push(json!({"x": bb_json(x), "not": bb_json(!x), "len": x.len(), "empty": x.is_empty(), "nonempty": x.is_nonempty(),
            "iter": bb_json(x), "flip_rank": bb_json(x.flipped_rank()), "flip_file": bb_json(x.flipped_file()),
            "c": c.index(), "has": x.has(c), "with": bb_json(x.with(c)), "without": bb_json(x.without(c)),
            "set": bb_json(s1), "unset": bb_json(s2), "with2": bb_json(x.with2(c.file(), c.rank())), "without2": bb_json(x.without2(c.file(), c.rank())),
            "by": by, "shl": bb_json(x.shl(by)), "shr": bb_json(x.shr(by)),
            "raw_rt": Bitboard::from_raw(x.as_raw()) == x && Bitboard::from(u64::from(x)) == x,
            "from_coord": bb_json(Bitboard::from_coord(c))}));
    }
    for ch in rows.chunks(256) {
        out.push(json!({"ev": "bb_unary", "rows": ch}));
    }
    // deposit_bits: masks incl. EMPTY and FULL, x values as bit lists
    let mut rows = Vec::new();
    let mut masks: Vec<Bitboard> = vec![Bitboard::EMPTY, Bitboard::FULL, Bitboard::from_raw(0xff), Bitboard::from_raw(0x8000000000000001)];
    for _ in 0..120 {
        masks.push(Bitboard::from_raw(rng.gen::<u64>() & rng.gen::<u64>()));
        masks.push(Bitboard::from_raw(rng.gen::<u64>() | rng.gen::<u64>()));
        masks.push(bb_of(&sub(rng.gen_range(0..4096), &uni12)));
    }
    for m in masks {
        for _ in 0..4 {
            let x: u64 = match rng.gen_range(0..4) {
                0 => rng.gen(),
                1 => rng.gen::<u64>() & 0xfff,
                2 => u64::MAX,
                _ => rng.gen::<u64>() >> rng.gen_range(0..64),
            };
            let bits: Vec<usize> = (0..64).filter(|i| x & (1u64 << i) != 0).collect();
            rows.push(json!([bb_json(m), bits, bb_json(m.deposit_bits(x))]));
        }
    }
    for ch in rows.chunks(256) {
        out.push(json!({"ev": "bb_deposit", "rows": ch}));
    }
    out
}
