//! Text formats: FEN (C08), SAN (C09), UCI (C10), parser totality (C12).
use crate::chain::Chain;
use crate::proj::*;
use owlchess::board::{Board, RawBoard};
use owlchess::movegen::{legal, semilegal};
use owlchess::moves::{make, san, uci, Make, Move};
use owlchess::types::{CastlingRights, Cell, Color, Coord};
use rand::rngs::StdRng;
use rand::seq::SliceRandom;
use rand::Rng;
use serde_json::{json, Value};
use std::str::FromStr;

pub fn catch<T, F: FnOnce() -> T>(f: F) -> Result<T, ()> {
    std::panic::catch_unwind(std::panic::AssertUnwindSafe(f)).map_err(|_| ())
}

pub const POOL: &str = "abcdefgh12345678NBRQKPOox=+#-0/ wkq.:9é€😀\u{0}\t";

pub fn mutate(rng: &mut StdRng, s: &str) -> String {
    let mut v: Vec<char> = s.chars().collect();
    let pool: Vec<char> = POOL.chars().collect();
    let n = rng.gen_range(1..3);
    for _ in 0..n {
        match rng.gen_range(0..5) {
            0 if !v.is_empty() => {
                let i = rng.gen_range(0..v.len());
                v[i] = *pool.choose(rng).unwrap();
            }
            1 if !v.is_empty() => {
                let i = rng.gen_range(0..v.len());
                v.remove(i);
            }
            2 => {
                let i = rng.gen_range(0..=v.len());
                v.insert(i, *pool.choose(rng).unwrap());
            }
            3 if v.len() >= 2 => {
                let i = rng.gen_range(0..v.len() - 1);
                v.swap(i, i + 1);
            }
            _ => {
                let k = rng.gen_range(0..=v.len());
                v.truncate(k);
            }
        }
    }
    v.into_iter().collect()
}

// ------------------------------------------------------------------------------------------------
// C08 FEN
// ------------------------------------------------------------------------------------------------
fn parsed_raw(text: &str) -> Value {
    match catch(|| RawBoard::from_fen(text)) {
        Ok(Ok(r)) => json!({"ok": true, "pos": raw_json(&r)}),
        Ok(Err(_)) => json!({"ok": false}),
        Err(()) => json!({"ok": false, "panic": true}),
    }
}

pub fn fen_board_event(b: &Board) -> Value {
    let t = b.as_fen();
    let back = match catch(|| Board::from_fen(&t)) {
        Ok(Ok(b2)) => json!({"ok": true, "pos": raw_json(b2.raw())}),
        Ok(Err(_)) => json!({"ok": false}),
        Err(()) => json!({"ok": false, "panic": true}),
    };
    json!({"ev": "fen", "kind": "board", "pos": raw_json(b.raw()), "text": text_json(&t),
           "text_display": text_json(&b.to_string()), "reparsed": back, "reparsed_raw": parsed_raw(&t),
           "pretty_ascii": text_json(&b.pretty(owlchess::board::PrettyStyle::Ascii).to_string()),
           "pretty_utf8": text_json(&b.raw().pretty(owlchess::board::PrettyStyle::Utf8).to_string())})
}

/// The board reached by the NULL move (TryUnchecked; documented as allowed when the side to move is not in
/// check): side flipped, e.p. mark cleared, counters advanced - a valid position like any other.
pub fn null_reached(b: &Board) -> Option<Board> {
    if b.is_check() {
        return None;
    }
    catch(|| b.make_move(unsafe { make::TryUnchecked::new(Move::NULL) })).ok()?.ok()
}

pub fn fen_raw_event(r: &RawBoard) -> Value {
    let t = r.as_fen();
    json!({"ev": "fen", "kind": "raw", "pos": raw_json(r), "text": text_json(&t), "reparsed": parsed_raw(&t),
           "reparsed_raw": parsed_raw(&t)})
}

pub fn fen_parse_event(text: &str) -> Value {
    let mut ev = json!({"ev": "fenparse", "text": text_json(text)});
    match catch(|| RawBoard::from_fen(text)) {
        Ok(Ok(r)) => {
            let t2 = r.as_fen();
            ev["res"] = json!({"ok": true, "pos": raw_json(&r), "text2": text_json(&t2), "pos2": parsed_raw(&t2)});
        }
        Ok(Err(e)) => ev["res"] = json!({"ok": false, "err": fen_err_class(&e)}),
        Err(()) => ev["res"] = json!({"ok": false, "panic": true}),
    }
    ev
}

/// The variant of a FEN parse error, as a short tag (the vocabulary of Notation!ImplFenRead).
pub fn fen_err_class(e: &owlchess::board::RawFenParseError) -> &'static str {
    use owlchess::board::{CellsParseError as C, RawFenParseError as E};
    match e {
        E::NonAscii => "NonAscii",
        E::NoBoard => "NoBoard",
        E::Board(C::RankOverflow(_)) => "Board.RankOverflow",
        E::Board(C::RankUnderflow(_)) => "Board.RankUnderflow",
        E::Board(C::Overflow) => "Board.Overflow",
        E::Board(C::Underflow) => "Board.Underflow",
        E::Board(C::UnexpectedChar(_)) => "Board.UnexpectedChar",
        E::NoMoveSide => "NoMoveSide",
        E::MoveSide(_) => "MoveSide",
        E::NoCastling => "NoCastling",
        E::Castling(_) => "Castling",
        E::NoEnpassant => "NoEnpassant",
        E::Enpassant(_) => "Enpassant",
        E::InvalidEnpassantRank(_) => "InvalidEnpassantRank",
        E::MoveCounter(_) => "MoveCounter",
        E::MoveNumber(_) => "MoveNumber",
        E::ExtraData => "ExtraData",
        #[allow(unreachable_patterns)]
        _ => "Other",
    }
}

/// Arbitrary UNVALIDATED raw board whose e.p. mark (if any) is on the rank appropriate to the side to move.
pub fn random_raw(rng: &mut StdRng) -> RawBoard {
    let mut r = RawBoard::empty();
    let dens = rng.gen_range(0..4);
    for i in 0..64 {
        let p = match dens {
            0 => 0.05,
            1 => 0.3,
            2 => 0.65,
            _ => 1.0,
        };
        if rng.gen_bool(p) {
            r.cells[i] = Cell::from_index(rng.gen_range(1..13));
        }
    }
    r.side = if rng.gen_bool(0.5) { Color::White } else { Color::Black };
    r.castling = CastlingRights::from_index(rng.gen_range(0..16));
    if rng.gen_bool(0.5) {
        let rank = if r.side == Color::White { 3 } else { 4 };
        r.ep_source = Some(Coord::from_index(rank * 8 + rng.gen_range(0..8)));
    }
    r.move_counter = *[0u16, 1, 9, 10, 99, 100, 999, 1000, 9999, 10000, 10001, 65535, 12345].choose(rng).unwrap();
    r.move_number = *[0u16, 1, 9, 10, 99, 100, 999, 1000, 9999, 10000, 10001, 65535, 777].choose(rng).unwrap();
    r
}

pub fn noncanonical_fens(rng: &mut StdRng, fen: &str) -> Vec<String> {
    let mut v = Vec::new();
    let parts: Vec<&str> = fen.split(' ').collect();
    if parts.len() == 6 {
        // '.' for empty squares / split digit runs
        let dotted: String = parts[0]
            .chars()
            .flat_map(|c| match c {
                '2'..='8' if rng.gen_bool(0.5) => {
                    let n = c.to_digit(10).unwrap();
                    if rng.gen_bool(0.5) {
                        std::iter::repeat('.').take(n as usize).collect::<Vec<_>>()
                    } else {
                        vec![char::from_digit(n - 1, 10).unwrap(), '1']
                    }
                }
                _ => vec![c],
            })
            .collect();
        v.push(format!("{} {} {} {} {} {}", dotted, parts[1], parts[2], parts[3], parts[4], parts[5]));
        v.push(format!("{} {} {} {}", parts[0], parts[1], parts[2], parts[3]));
        v.push(format!("{} {} {} {} {}", parts[0], parts[1], parts[2], parts[3], parts[4]));
        v.push(format!("{} {} {} {} +{} 0{}", parts[0], parts[1], parts[2], parts[3], parts[4], parts[5]));
        let rev: String = parts[2].chars().rev().collect();
        v.push(format!("{} {} {} {} {} {}", parts[0], parts[1], rev, parts[3], parts[4], parts[5]));
        v.push(format!("{}  {} {} {} {} {}", parts[0], parts[1], parts[2], parts[3], parts[4], parts[5]));
        v.push(format!("{} {} {} {} {} {} ", parts[0], parts[1], parts[2], parts[3], parts[4], parts[5]));
        v.push(format!("{} {} {} {} {} 65536", parts[0], parts[1], parts[2], parts[3], parts[4]));
    }
    if parts.len() == 6 {
        // the e.p. field: every file on both candidate ranks, for the given side and for the other side
        for side in ["w", "b"] {
            for f in "abcdefgh".chars() {
                for r in ['3', '6', '4', '5'] {
                    if rng.gen_bool(0.25) {
                        v.push(format!("{} {} {} {}{} {} {}", parts[0], side, parts[2], f, r, parts[4], parts[5]));
                    }
                }
            }
        }
    }
    for _ in 0..4 {
        v.push(mutate(rng, fen));
    }
    v
}

// ------------------------------------------------------------------------------------------------
// C09 SAN
// ------------------------------------------------------------------------------------------------
fn san_parse_result(text: &str, b: &Board) -> Value {
    match catch(|| Move::from_san(text, b)) {
        Ok(Ok(m)) => json!({"ok": true, "m": mv_json(m)}),
        Ok(Err(e)) => {
            let ambig = matches!(e, san::ParseError::Convert(san::IntoMoveError::Ambiguity(_, _)));
            json!({"ok": false, "ambig": ambig})
        }
        Err(()) => json!({"ok": false, "panic": true}),
    }
}

pub fn san_variants(rng: &mut StdRng, b: &Board, base: &[String]) -> Vec<String> {
    let mut v: Vec<String> = Vec::new();
    let files = "abcdefgh";
    for t in base {
        let core = t.trim_end_matches(['+', '#']);
        // strip / add hints and capture marks
        let chars: Vec<char> = core.chars().collect();
        if chars.len() >= 3 && "NBRQK".contains(chars[0]) {
            let dst: String = chars[chars.len() - 2..].iter().collect();
            let p = chars[0];
            v.push(format!("{p}{dst}"));
            v.push(format!("{p}x{dst}"));
            for f in files.chars() {
                if rng.gen_bool(0.3) {
                    v.push(format!("{p}{f}{dst}"));
                }
            }
            for r in 1..=8 {
                if rng.gen_bool(0.2) {
                    v.push(format!("{p}{r}{dst}"));
                }
            }
            if rng.gen_bool(0.3) {
                v.push(format!("{p}{}{}x{dst}", files.chars().nth(rng.gen_range(0..8)).unwrap(), rng.gen_range(1..9)));
            }
        } else if chars.len() >= 2 {
            // pawn texts: change promotion, drop '=', short capture forms
            for q in ["=Q", "=N", "R", "B", ""] {
                let stem: String = core.split('=').next().unwrap().to_string();
                v.push(format!("{stem}{q}"));
            }
            if chars.len() >= 4 && chars[1] == 'x' {
                v.push(format!("{}{}", chars[0], chars[2]));
                v.push(format!("{}:{}{}", chars[0], chars[2], chars[3]));
            }
        }
        v.push(format!("{core}+"));
        v.push(format!("{core}#"));
        v.push(format!("{core}++"));
        if rng.gen_bool(0.3) {
            v.push(mutate(rng, t));
        }
    }
    // every short pawn capture form: ALL ordered pairs of files (also non-adjacent ones, which can never
    // denote a move)
    for a in 0..8usize {
        for c in 0..8usize {
            if a != c {
                let s = format!("{}{}", files.chars().nth(a).unwrap(), files.chars().nth(c).unwrap());
                v.push(s.clone());
                if rng.gen_bool(0.15) {
                    v.push(format!("{s}=Q"));
                    v.push(format!("{s}N"));
                }
            }
        }
    }
    v.extend(["O-O", "O-O-O", "0-0", "0-0-0", "O-O+", "0000", "", "N", "Qx", "R+", "aé4", "€", "e1", "e8", "a1=Q"].iter().map(|s| s.to_string()));
    // UCI spellings of semilegal moves (SAN parsing accepts them if legal)
    let mut semi = Vec::new();
    semilegal::gen_all_into(b, &mut semi);
    // every semilegal piece move - in particular the ILLEGAL ones (pinned piece, king into check) - written
    // with no hint, a file hint, a rank hint and the full origin square, with and without a capture mark
    let lg = legal::gen_all(b);
    for m in semi.iter() {
        let p = match m.src_cell().piece() {
            Some(owlchess::types::Piece::Pawn) | None => continue,
            Some(p) => "PKNBRQ".chars().nth(p.index()).unwrap(),
        };
        if m.kind() != owlchess::moves::MoveKind::Simple {
            continue;
        }
        let is_illegal = !lg.contains(m);
        if !is_illegal && !rng.gen_bool(0.15) {
            continue;
        }
        let src = m.src().to_string();
        let (sf, sr) = (&src[0..1], &src[1..2]);
        let dst = m.dst().to_string();
        for x in ["", "x"] {
            v.push(format!("{p}{x}{dst}"));
            v.push(format!("{p}{sf}{x}{dst}"));
            v.push(format!("{p}{sr}{x}{dst}"));
            v.push(format!("{p}{sf}{sr}{x}{dst}"));
        }
    }
    for m in semi.iter().take(60) {
        if rng.gen_bool(0.25) {
            v.push(m.to_string());
        }
    }
    v.sort();
    v.dedup();
    v
}

pub fn san_event(rng: &mut StdRng, b: &Board) -> Value {
    let mut moves = Vec::new();
    let mut base = Vec::new();
    for m in legal::gen_all(b).iter() {
        let r = catch(|| m.san(b));
        match r {
            Ok(Ok(s)) => {
                let t = s.to_string();
                let u = s.styled(san::Style::Utf8).to_string();
                let styled_san = m.styled(b, owlchess::moves::Style::San).map(|x| x.to_string()).unwrap_or_default();
                let styled_utf8 = m.styled(b, owlchess::moves::Style::SanUtf8).map(|x| x.to_string()).unwrap_or_default();
                moves.push(json!({"m": mv_json(*m), "ok": true, "san": text_json(&t), "utf8": text_json(&u),
                                  "styled_agree": styled_san == t && styled_utf8 == u,
                                  "back": san_parse_result(&t, b)}));
                base.push(t);
            }
            Ok(Err(_)) => moves.push(json!({"m": mv_json(*m), "ok": false})),
            Err(()) => moves.push(json!({"m": mv_json(*m), "ok": false, "panic": true})),
        }
    }
    // SAN of illegal semilegal moves must be refused
    let mut semi = Vec::new();
    semilegal::gen_all_into(b, &mut semi);
    let lg = legal::gen_all(b);
    let illegal_ok: Vec<Move> = semi.iter().copied().filter(|m| !lg.contains(m) && matches!(catch(|| m.san(b)), Ok(Ok(_)))).collect();
    let mut texts = Vec::new();
    for t in san_variants(rng, b, &base) {
        texts.push(json!({"text": text_json(&t), "res": san_parse_result(&t, b)}));
    }
    json!({"ev": "san", "pos": raw_json(b.raw()), "moves": moves, "texts": texts, "illegal_with_san": mvs_json(&illegal_ok)})
}

// ------------------------------------------------------------------------------------------------
// C10 UCI
// ------------------------------------------------------------------------------------------------
pub fn uci_event(b: &Board) -> Value {
    let files = "abcdefgh";
    let mut basic = Vec::new();
    let mut semi = Vec::new();
    let mut lg = Vec::new();
    let mut make_ok = Vec::new();
    let mut panics = Vec::new();
    let promos = ["", "n", "b", "r", "q"];
    let mut s = String::with_capacity(5);
    for sf in 0..8 {
        for sr in 1..=8 {
            for df in 0..8 {
                for dr in 1..=8 {
                    for (pi, p) in promos.iter().enumerate() {
                        s.clear();
                        s.push(files.as_bytes()[sf] as char);
                        s.push(char::from_digit(sr, 10).unwrap());
                        s.push(files.as_bytes()[df] as char);
                        s.push(char::from_digit(dr, 10).unwrap());
                        s.push_str(p);
                        let src = (8 - sr as usize) * 8 + sf;
                        let dst = (8 - dr as usize) * 8 + df;
                        let promo = if pi == 0 { 0 } else { 5 + pi };
                        let tr = json!([src, dst, promo]);
                        let r = catch(|| {
                            (Move::from_uci(&s, b).ok(), Move::from_uci_semilegal(&s, b).ok(), Move::from_uci_legal(&s, b).ok(),
                             make::Uci(s.as_str()).make(b).is_ok(),
                             uci::Move::from_str(&s).ok().map(|u| u.make(b).is_ok()))
                        });
                        match r {
                            Ok((a, sm, l, mk, mk2)) => {
                                if let Some(m) = a {
                                    basic.push(json!([tr, mv_json(m)]));
                                }
                                if let Some(m) = sm {
                                    semi.push(json!([tr, mv_json(m)]));
                                }
                                if let Some(m) = l {
                                    lg.push(json!([tr, mv_json(m)]));
                                }
                                if mk || mk2 == Some(true) {
                                    make_ok.push(json!([tr, mk, mk2 == Some(true)]));
                                }
                            }
                            Err(()) => panics.push(tr),
                        }
                    }
                }
            }
        }
    }
    let nullinfo = json!({
        "from_uci_is_null": matches!(Move::from_uci("0000", b), Ok(m) if m == Move::NULL),
        "semi": Move::from_uci_semilegal("0000", b).is_ok(),
        "legal": Move::from_uci_legal("0000", b).is_ok(),
        "make_str": make::Uci("0000").make(b).is_ok(),
        "make_parsed": uci::Move::Null.make(b).is_ok(),
        "make_move": Move::NULL.make(b).is_ok(),
        "null_text": text_json(&Move::NULL.to_string()),
    });
    let mut sv = Vec::new();
    semilegal::gen_all_into(b, &mut sv);
    let tostr: Vec<Value> = sv
        .iter()
        .map(|m| {
            let t = m.to_string();
            let t2 = m.uci().to_string();
            let back = Move::from_uci_semilegal(&t, b).ok();
            json!({"m": mv_json(*m), "text": text_json(&t), "same": t == t2, "back": back.map(mv_json).unwrap_or(json!([]))})
        })
        .collect();
    json!({"ev": "uci", "pos": raw_json(b.raw()), "basic": basic, "semi": semi, "legal": lg, "make_ok": make_ok,
           "panics": panics, "null": nullinfo, "tostring": tostr})
}

// ------------------------------------------------------------------------------------------------
// C12 parser totality
// ------------------------------------------------------------------------------------------------
pub const PARSERS: [&str; 12] = ["coord", "color", "cell", "rights", "uci", "san", "sandata", "rawfen", "fen", "from_uci", "from_san", "ucilist"];

pub fn parse_event(what: &str, text: &str, b: &Board) -> Value {
    let r: Result<(bool, bool, Value), ()> = catch(|| match what {
        "coord" => match Coord::from_str(text) {
            Ok(v) => (true, Coord::from_str(&v.to_string()) == Ok(v), json!(v.index())),
            Err(_) => (false, true, Value::Null),
        },
        "color" => match Color::from_str(text) {
            Ok(v) => (true, Color::from_str(&v.to_string()) == Ok(v), json!(color_ix(v))),
            Err(_) => (false, true, Value::Null),
        },
        "cell" => match Cell::from_str(text) {
            Ok(v) => (true, Cell::from_str(&v.to_string()) == Ok(v), json!(v.index())),
            Err(_) => (false, true, Value::Null),
        },
        "rights" => match CastlingRights::from_str(text) {
            Ok(v) => (true, CastlingRights::from_str(&v.to_string()) == Ok(v), json!(v.index())),
            Err(_) => (false, true, Value::Null),
        },
        "uci" => match uci::Move::from_str(text) {
            Ok(v) => (true, uci::Move::from_str(&v.to_string()) == Ok(v), text_json(&v.to_string())),
            Err(_) => (false, true, Value::Null),
        },
        "san" => match san::Move::from_str(text) {
            Ok(v) => {
                // (the figurine style is formatted too: a panic there is a panic of the value's formatter)
                let _ = v.styled(san::Style::Utf8).to_string();
                (true, san::Move::from_str(&v.to_string()) == Ok(v), text_json(&v.to_string()))
            }
            Err(_) => (false, true, Value::Null),
        },
        "sandata" => match san::Data::from_str(text) {
            Ok(v) => {
                let _ = v.styled(san::Style::Utf8).to_string();
                (true, san::Data::from_str(&v.to_string()) == Ok(v), text_json(&v.to_string()))
            }
            Err(_) => (false, true, Value::Null),
        },
        "rawfen" => match RawBoard::from_fen(text) {
            Ok(v) => (true, RawBoard::from_fen(&v.as_fen()) == Ok(v), text_json(&v.as_fen())),
            Err(_) => (false, true, Value::Null),
        },
        "fen" => match Board::from_fen(text) {
            Ok(v) => (true, Board::from_fen(&v.as_fen()).as_ref() == Ok(&v), text_json(&v.as_fen())),
            Err(_) => (false, true, Value::Null),
        },
        "from_uci" => match Move::from_uci(text, b) {
            Ok(v) => (true, Move::from_uci(&v.to_string(), b) == Ok(v), mv_json(v)),
            Err(_) => (false, true, Value::Null),
        },
        "from_san" => match Move::from_san(text, b) {
            Ok(v) => {
                let back = v.san(b).map(|s| Move::from_san(&s.to_string(), b) == Ok(v)).unwrap_or(false);
                (true, back, mv_json(v))
            }
            Err(_) => (false, true, Value::Null),
        },
        "ucilist" => {
            let mut c = Chain::new(b.clone());
            match c.push_uci_list(text) {
                Ok(()) => {
                    let t = c.uci().to_string();
                    let c2 = Chain::from_uci_list(b.clone(), &t);
                    (true, c2.map(|x| x == c).unwrap_or(false), text_json(&t))
                }
                Err(e) => (false, c.len() == e.pos, Value::Null),
            }
        }
        _ => panic!("unknown parser"),
    });
    match r {
        Ok((ok, rt, val)) => {
            let mut ev = json!({"ev": "parse", "what": what, "text": text_json(text), "bytes": text.len(),
                                "res": if ok { "ok" } else { "err" }, "rt": rt});
            if !val.is_null() {
                ev["val"] = val; // JSON null cannot be read by TLC's Json module
            }
            ev
        }
        Err(()) => json!({"ev": "parse", "what": what, "text": text_json(text), "bytes": text.len(), "res": "panic", "rt": false}),
    }
}

/// every string of length <= `maxlen` over `alphabet`
pub fn all_strings(alphabet: &[char], maxlen: usize) -> Vec<String> {
    let mut res = vec![String::new()];
    let mut cur = vec![String::new()];
    for _ in 0..maxlen {
        let mut nxt = Vec::new();
        for s in &cur {
            for c in alphabet {
                let mut t = s.clone();
                t.push(*c);
                nxt.push(t);
            }
        }
        res.extend(nxt.iter().cloned());
        cur = nxt;
    }
    res
}
