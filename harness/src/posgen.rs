//! Position generators shared by all properties.  All randomness derives from the seed.
use owlchess::board::{Board, RawBoard};
use owlchess::movegen::legal;
use owlchess::moves::{Move, MoveKind};
use owlchess::types::{CastlingRights, CastlingSide, Cell, Color, Coord, File, Piece, Rank};
use rand::rngs::StdRng;
use rand::seq::SliceRandom;
use rand::Rng;

pub const CORPUS: &str = include_str!("../corpus.fen");

pub fn corpus_fens() -> Vec<&'static str> {
    CORPUS
        .lines()
        .map(|l| l.trim())
        .filter(|l| !l.is_empty() && !l.starts_with('#'))
        .collect()
}

pub fn corpus() -> Vec<Board> {
    corpus_fens()
        .into_iter()
        .map(|f| Board::from_fen(f).unwrap_or_else(|e| panic!("corpus fen {f}: {e}")))
        .collect()
}

pub const COUNTERS: [u16; 21] = [0, 1, 2, 9, 10, 49, 50, 98, 99, 100, 101, 148, 149, 150, 151, 999, 1000, 9999, 10000, 10001, 65534];

fn pick_counter(rng: &mut StdRng) -> u16 {
    match rng.gen_range(0..10) {
        0..=4 => *COUNTERS.choose(rng).unwrap(),
        5 => 65535,
        6 => rng.gen_range(0..200),
        _ => rng.gen_range(0..40),
    }
}

/// Biased random legal move: prefers captures, promotions, castling, e.p., double steps.
pub fn pick_move(rng: &mut StdRng, b: &Board) -> Option<Move> {
    let moves = legal::gen_all(b);
    if moves.is_empty() {
        return None;
    }
    if rng.gen_bool(0.5) {
        let special: Vec<Move> = moves
            .iter()
            .copied()
            .filter(|m| m.kind() != MoveKind::Simple || b.get(m.dst()).is_occupied())
            .collect();
        if !special.is_empty() {
            return special.choose(rng).copied();
        }
    }
    moves.choose(rng).copied()
}

/// Random playout from `start`, returns the visited positions (excluding the start).
pub fn playout(rng: &mut StdRng, start: &Board, maxlen: usize) -> Vec<Board> {
    let mut res = Vec::new();
    let mut b = start.clone();
    for _ in 0..maxlen {
        let m = match pick_move(rng, &b) {
            Some(m) => m,
            None => break,
        };
        // a panic inside the library (e.g. counter overflow) must not kill the generator:
        // the dedicated checks report it; here we just stop the playout
        b = match std::panic::catch_unwind(std::panic::AssertUnwindSafe(|| b.make_move(m))) {
            Ok(Ok(nb)) => nb,
            _ => break,
        };
        res.push(b.clone());
    }
    res
}

fn random_piece(rng: &mut StdRng, style: u32) -> Piece {
    match style {
        0 => Piece::Queen,
        1 => *[Piece::Pawn, Piece::Pawn, Piece::Pawn, Piece::Knight, Piece::Bishop, Piece::Rook, Piece::Queen]
            .choose(rng)
            .unwrap(),
        2 => *[Piece::Bishop, Piece::Knight].choose(rng).unwrap(),
        3 => *[Piece::Rook, Piece::Queen, Piece::Bishop].choose(rng).unwrap(),
        _ => *[Piece::Pawn, Piece::Knight, Piece::Bishop, Piece::Rook, Piece::Queen].choose(rng).unwrap(),
    }
}

/// Random *placement* (not a reachable position): the quantifier "every position accepted by validation".
pub fn placement_raw(rng: &mut StdRng) -> RawBoard {
    let mut r = RawBoard::empty();
    r.side = if rng.gen_bool(0.5) { Color::White } else { Color::Black };
    let mut free: Vec<usize> = (0..64).collect();
    free.shuffle(rng);
    // kings: sometimes on home squares so castling rights survive normalisation
    let home = rng.gen_bool(0.4);
    let mut take = |r: &mut RawBoard, free: &mut Vec<usize>, sq: Option<usize>, cell: Cell| -> bool {
        let sq = match sq {
            Some(s) => {
                if let Some(p) = free.iter().position(|x| *x == s) {
                    free.swap_remove(p);
                    s
                } else {
                    return false;
                }
            }
            None => match free.pop() {
                Some(s) => s,
                None => return false,
            },
        };
        r.cells[sq] = cell;
        true
    };
    let wk = Cell::from_parts(Color::White, Piece::King);
    let bk = Cell::from_parts(Color::Black, Piece::King);
    if home {
        take(&mut r, &mut free, Some(60), wk);
        take(&mut r, &mut free, Some(4), bk);
        for (sq, col) in [(56, Color::White), (63, Color::White), (0, Color::Black), (7, Color::Black)] {
            if rng.gen_bool(0.7) {
                take(&mut r, &mut free, Some(sq), Cell::from_parts(col, Piece::Rook));
            }
        }
    } else {
        take(&mut r, &mut free, None, wk);
        take(&mut r, &mut free, None, bk);
    }
    let style = rng.gen_range(0..6);
    for col in [Color::White, Color::Black] {
        let have = r.cells.iter().filter(|c| c.color() == Some(col)).count();
        let maxn = 16 - have;
        let n = match rng.gen_range(0..4) {
            0 => rng.gen_range(0..=2.min(maxn)),
            1 => maxn,
            _ => rng.gen_range(0..=maxn),
        };
        for _ in 0..n {
            let p = random_piece(rng, style);
            // pawns must avoid first and last rank
            let pos = if p == Piece::Pawn {
                free.iter().position(|s| *s >= 8 && *s < 56)
            } else {
                if free.is_empty() { None } else { Some(free.len() - 1) }
            };
            if let Some(i) = pos {
                let s = free.swap_remove(i);
                r.cells[s] = Cell::from_parts(col, p);
            }
        }
    }
    r.castling = CastlingRights::from_index(if rng.gen_bool(0.5) { 15 } else { rng.gen_range(0..16) });
    // en passant: sometimes build the pawn structure for it
    if rng.gen_bool(0.5) {
        let f = rng.gen_range(0..8usize);
        let (src_rank, pass_rank) = match r.side {
            Color::White => (3usize, 2usize),
            Color::Black => (4usize, 5usize),
        };
        let ep = src_rank * 8 + f;
        let pass = pass_rank * 8 + f;
        let theirs = Cell::from_parts(r.side.inv(), Piece::Pawn);
        let ours = Cell::from_parts(r.side, Piece::Pawn);
        let king_there = |r: &RawBoard, s: usize| r.cells[s].piece() == Some(Piece::King);
        if !king_there(&r, ep) && !king_there(&r, pass) {
            r.cells[ep] = theirs;
            r.cells[pass] = Cell::EMPTY;
            // also vacate the origin square of the double step (not required by validation, but typical)
            for df in [-1i64, 1] {
                let nf = f as i64 + df;
                if (0..8).contains(&nf) && rng.gen_bool(0.7) {
                    let s = src_rank * 8 + nf as usize;
                    if !king_there(&r, s) {
                        r.cells[s] = ours;
                    }
                }
            }
            r.ep_source = Some(Coord::from_index(ep));
        }
    }
    r.move_counter = pick_counter(rng);
    r.move_number = match rng.gen_range(0..7) {
        0 => 65535,
        1 => 65534,
        2 => *[0u16, 9, 10, 99, 100, 999, 1000, 9999, 10000, 10001].choose(rng).unwrap(),
        _ => rng.gen_range(1..300),
    };
    r
}

/// The longest FENs: 32 men that never touch (no digit is saved by run-length coding), all rights, an e.p.
/// square and five-digit counters (89..93 bytes).
pub const DENSE_FENS: [&str; 3] = [
    "r1b1k1nr/1p1p1p1p/n1b1q1n1/1p1p1p2/1P1P1P2/N1B1Q1N1/1P1P1P1P/R1B1K1NR w KQkq d6 10000 10000",
    "r1b1k1nr/1p1p1p1p/1n1q1b1p/2p1p1p1/P1P1P1P1/1N1Q1B1P/2P1P1P1/R1B1K1NR w KQkq e6 100 10000",
    "r1b1k1n1/1p1p1p1p/p1p1p1p1/1n1q1b1r/R1B1Q1N1/1P1P1P1P/P1P1P1P1/1N1K1B1R w - - 65535 65535",
];

/// A random valid variant of one of the dense templates (piece kinds reshuffled, big counters).
pub fn dense(rng: &mut StdRng) -> Board {
    let base = RawBoard::from_fen(DENSE_FENS.choose(rng).unwrap()).unwrap();
    for _ in 0..50 {
        let mut r = base;
        for i in 0..64 {
            let c = r.cells[i];
            if let (Some(col), Some(pc)) = (c.color(), c.piece()) {
                if pc == Piece::King || !rng.gen_bool(0.3) {
                    continue;
                }
                let rank = i / 8;
                let np = match rng.gen_range(0..5) {
                    0 if rank != 0 && rank != 7 => Piece::Pawn,
                    1 => Piece::Knight,
                    2 => Piece::Bishop,
                    3 => Piece::Rook,
                    _ => Piece::Queen,
                };
                r.cells[i] = Cell::from_parts(col, np);
            }
        }
        r.move_counter = *[9999u16, 10000, 10001, 65535, 12345, 100].choose(rng).unwrap();
        r.move_number = *[9999u16, 10000, 10001, 65535, 54321].choose(rng).unwrap();
        if let Ok(b) = Board::try_from(r) {
            return b;
        }
    }
    Board::try_from(base).unwrap()
}

pub fn placement(rng: &mut StdRng) -> Board {
    loop {
        let r = placement_raw(rng);
        if let Ok(b) = Board::try_from(r) {
            return b;
        }
    }
}

/// Local mutation of a valid position; returns a valid position (retries), or the original.
pub fn mutate(rng: &mut StdRng, b: &Board) -> Board {
    for _ in 0..20 {
        let mut r = *b.raw();
        match rng.gen_range(0..7) {
            0 => {
                // move one man to a random empty square
                let occ: Vec<usize> = (0..64).filter(|i| r.cells[*i].is_occupied()).collect();
                let s = *occ.choose(rng).unwrap();
                let d = rng.gen_range(0..64);
                if r.cells[d].is_free() {
                    r.cells[d] = r.cells[s];
                    r.cells[s] = Cell::EMPTY;
                }
            }
            1 => {
                let d = rng.gen_range(0..64);
                if r.cells[d].is_free() {
                    let col = if rng.gen_bool(0.5) { Color::White } else { Color::Black };
                    r.cells[d] = Cell::from_parts(col, random_piece(rng, 5));
                }
            }
            2 => {
                let occ: Vec<usize> = (0..64)
                    .filter(|i| r.cells[*i].is_occupied() && r.cells[*i].piece() != Some(Piece::King))
                    .collect();
                if let Some(s) = occ.choose(rng) {
                    r.cells[*s] = Cell::EMPTY;
                }
            }
            3 => {
                r.side = r.side.inv();
                r.ep_source = None;
            }
            4 => {
                r.castling = CastlingRights::from_index(r.castling.index() ^ (1 << rng.gen_range(0..4)));
            }
            5 => {
                r.move_counter = pick_counter(rng);
            }
            _ => {
                let occ: Vec<usize> = (0..64)
                    .filter(|i| r.cells[*i].is_occupied() && r.cells[*i].piece() != Some(Piece::King))
                    .collect();
                if let Some(s) = occ.choose(rng) {
                    let col = r.cells[*s].color().unwrap();
                    r.cells[*s] = Cell::from_parts(col.inv(), r.cells[*s].piece().unwrap());
                }
            }
        }
        if let Ok(nb) = Board::try_from(r) {
            return nb;
        }
    }
    b.clone()
}

/// A mixed stream of `n` positions: corpus, playouts from corpus, placements, mutations.
pub fn mixed(rng: &mut StdRng, n: usize) -> Vec<Board> {
    let corp = corpus();
    let mut res: Vec<Board> = corp.clone();
    while res.len() < n {
        match rng.gen_range(0..10) {
            0..=3 => {
                let st = corp.choose(rng).unwrap().clone();
                let len = rng.gen_range(1..60);
                let mut v = playout(rng, &st, len);
                // keep a sample of the playout
                v.shuffle(rng);
                v.truncate(8);
                res.extend(v);
            }
            4..=7 => res.push(placement(rng)),
            _ => {
                let base = res.choose(rng).unwrap().clone();
                res.push(mutate(rng, &base));
            }
        }
    }
    res.truncate(n.max(corp.len()));
    res
}

/// Squares of the four rays of a slider from `sq` (rook or bishop directions), each ray in walking order.
pub fn rays(sq: usize, rook: bool) -> Vec<Vec<usize>> {
    let dirs: [(i32, i32); 4] = if rook { [(1, 0), (-1, 0), (0, 1), (0, -1)] } else { [(1, 1), (1, -1), (-1, 1), (-1, -1)] };
    let (f0, r0) = ((sq % 8) as i32, (sq / 8) as i32);
    dirs.iter()
        .map(|(df, dr)| {
            let mut v = Vec::new();
            let (mut f, mut r) = (f0 + df, r0 + dr);
            while (0..8).contains(&f) && (0..8).contains(&r) {
                v.push((r * 8 + f) as usize);
                f += df;
                r += dr;
            }
            v
        })
        .collect()
}

/// The "relevant occupancy" squares of a slider on `sq`: every ray square except the last one of each ray.
pub fn relevant_squares(sq: usize, rook: bool) -> Vec<usize> {
    rays(sq, rook).into_iter().flat_map(|r| { let n = r.len().saturating_sub(1); r.into_iter().take(n) }).collect()
}

/// A valid position realising one occupancy pattern around `sq`: knights (which never attack along lines) on the
/// chosen subset of the relevant squares, sliders of one colour on the far ends of the rays, kings out of the way.
pub fn occupancy_position(rng: &mut StdRng, sq: usize, rook: bool, subset: u64) -> Option<Board> {
    let rel = relevant_squares(sq, rook);
    let ends: Vec<usize> = rays(sq, rook).into_iter().filter_map(|r| r.last().copied()).collect();
    for _ in 0..30 {
        let mut r = RawBoard::empty();
        let att = if rng.gen_bool(0.5) { Color::White } else { Color::Black };
        let mut cnt = [0usize; 2];
        for (i, s) in rel.iter().enumerate() {
            if subset & (1 << i) != 0 {
                let c = if cnt[0] <= cnt[1] { Color::White } else { Color::Black };
                cnt[c as usize] += 1;
                r.cells[*s] = Cell::from_parts(c, Piece::Knight);
            }
        }
        for e in ends.iter() {
            if rng.gen_bool(0.85) {
                let pc = if rng.gen_bool(0.3) { Piece::Queen } else if rook { Piece::Rook } else { Piece::Bishop };
                r.cells[*e] = Cell::from_parts(att, pc);
            }
        }
        if rng.gen_bool(0.3) {
            r.cells[sq] = Cell::from_parts(att.inv(), Piece::Knight);
        }
        let free: Vec<usize> = (0..64).filter(|i| r.cells[*i] == Cell::EMPTY && *i != sq).collect();
        let wk = *free.choose(rng)?;
        let bk = *free.choose(rng)?;
        if wk == bk {
            continue;
        }
        r.cells[wk] = Cell::from_parts(Color::White, Piece::King);
        r.cells[bk] = Cell::from_parts(Color::Black, Piece::King);
        for side in [Color::White, Color::Black] {
            r.side = side;
            if let Ok(b) = Board::try_from(r) {
                return Some(b);
            }
        }
    }
    None
}

#[allow(dead_code)]
pub fn unused(_: File, _: Rank, _: CastlingSide) {}
