//! Projection of library values into the JSON encoding shared with the TLA+ specification.
use owlchess::bitboard::Bitboard;
use owlchess::board::{Board, RawBoard};
use owlchess::moves::{Move, MoveKind};
use owlchess::types::{Cell, Color, Coord, DrawReason, Outcome, WinReason};
use serde_json::{json, Value};

pub const KINDS: [MoveKind; 10] = [
    MoveKind::Null,
    MoveKind::Simple,
    MoveKind::CastlingKingside,
    MoveKind::CastlingQueenside,
    MoveKind::PawnDouble,
    MoveKind::Enpassant,
    MoveKind::PromoteKnight,
    MoveKind::PromoteBishop,
    MoveKind::PromoteRook,
    MoveKind::PromoteQueen,
];

pub fn color_ix(c: Color) -> u8 {
    match c {
        Color::White => 0,
        Color::Black => 1,
    }
}

pub fn color_of(i: u64) -> Color {
    if i == 0 {
        Color::White
    } else {
        Color::Black
    }
}

pub fn raw_json(r: &RawBoard) -> Value {
    let cells: Vec<u8> = r.cells.iter().map(|c| c.index() as u8).collect();
    json!({
        "cells": cells,
        "side": color_ix(r.side),
        "castling": r.castling.index(),
        "ep": r.ep_source.map(|c| c.index() as i64).unwrap_or(-1),
        "hm": r.move_counter,
        "fm": r.move_number,
    })
}

pub fn raw_from_json(v: &Value) -> RawBoard {
    let mut r = RawBoard::empty();
    for (i, c) in v["cells"].as_array().unwrap().iter().enumerate() {
        r.cells[i] = Cell::from_index(c.as_u64().unwrap() as usize);
    }
    r.side = color_of(v["side"].as_u64().unwrap());
    r.castling = owlchess::CastlingRights::from_index(v["castling"].as_u64().unwrap() as usize);
    let ep = v["ep"].as_i64().unwrap();
    r.ep_source = if ep < 0 { None } else { Some(Coord::from_index(ep as usize)) };
    r.move_counter = v["hm"].as_u64().unwrap() as u16;
    r.move_number = v["fm"].as_u64().unwrap() as u16;
    r
}

pub fn bb_json(b: Bitboard) -> Value {
    let v: Vec<u8> = b.into_iter().map(|c| c.index() as u8).collect();
    json!(v)
}

pub fn hex(h: u64) -> String {
    format!("{:016x}", h)
}

/// Derived state of a board: stored hash, from-scratch hash, all 16 occupancy sets.
pub fn derived_json(b: &Board) -> Value {
    let pieces: Vec<Value> = Cell::iter().map(|c| bb_json(b.piece(c))).collect();
    json!({
        "hash": hex(b.zobrist_hash()),
        "scratch": hex(b.raw().zobrist_hash()),
        "white": bb_json(b.color(Color::White)),
        "black": bb_json(b.color(Color::Black)),
        "all": bb_json(owlchess::verif_hooks::board_all(b)),
        "pieces": pieces,
    })
}

pub fn mv_json(m: Move) -> Value {
    json!([m.kind() as u8, m.src_cell().index(), m.src().index(), m.dst().index()])
}

pub fn mv_from_json(v: &Value) -> Option<Move> {
    let a = v.as_array()?;
    let k = a[0].as_u64()? as usize;
    if k == 0 {
        return Some(Move::NULL);
    }
    Move::new(
        KINDS[k],
        Cell::from_index(a[1].as_u64()? as usize),
        Coord::from_index(a[2].as_u64()? as usize),
        Coord::from_index(a[3].as_u64()? as usize),
    )
    .ok()
}

pub fn mvs_json<'a, I: IntoIterator<Item = &'a Move>>(it: I) -> Value {
    Value::Array(it.into_iter().map(|m| mv_json(*m)).collect())
}

pub fn outcome_json(o: &Option<Outcome>) -> Value {
    match o {
        None => json!(["none"]),
        Some(Outcome::Win { side, reason }) => {
            let r = match reason {
                WinReason::Checkmate => "checkmate",
                WinReason::TimeForfeit => "timeforfeit",
                WinReason::InvalidMove => "invalidmove",
                WinReason::EngineError => "engineerror",
                WinReason::Resign => "resign",
                WinReason::Abandon => "abandon",
                WinReason::Unknown => "unknown",
                _ => "other",
            };
            json!(["win", color_ix(*side), r])
        }
        Some(Outcome::Draw(reason)) => json!(["draw", draw_str(*reason)]),
    }
}

pub fn draw_str(r: DrawReason) -> &'static str {
    match r {
        DrawReason::Stalemate => "stalemate",
        DrawReason::InsufficientMaterial => "insufficient",
        DrawReason::Moves75 => "moves75",
        DrawReason::Repeat5 => "repeat5",
        DrawReason::Moves50 => "moves50",
        DrawReason::Repeat3 => "repeat3",
        DrawReason::Agreement => "agreement",
        DrawReason::Unknown => "unknown",
        _ => "other",
    }
}

/// Text as a sequence of Unicode code points (TLC cannot index into strings).
pub fn text_json(s: &str) -> Value {
    let v: Vec<u32> = s.chars().map(|c| c as u32).collect();
    json!(v)
}

/// All well-formed non-null move tuples accepted by `Move::new`, over the full 10x13x64x64 product.
pub fn all_well_formed() -> Vec<Move> {
    let mut res = Vec::new();
    for k in KINDS.iter().skip(1) {
        for cell in Cell::iter() {
            for s in Coord::iter() {
                for d in Coord::iter() {
                    if let Ok(m) = Move::new(*k, cell, s, d) {
                        res.push(m);
                    }
                }
            }
        }
    }
    res
}

/// FEN of a raw board written by the HARNESS (not by the library's formatter): used to name an input in the
/// write-ahead file before the library is asked anything about it.
pub fn own_fen(r: &RawBoard) -> String {
    let mut out = String::new();
    for rank in 0..8 {
        if rank > 0 {
            out.push('/');
        }
        let mut run = 0;
        for file in 0..8 {
            let c = r.cells[rank * 8 + file].index();
            if c == 0 {
                run += 1;
            } else {
                if run > 0 {
                    out.push_str(&run.to_string());
                    run = 0;
                }
                out.push(b"PKNBRQpknbrq"[c - 1] as char);
            }
        }
        if run > 0 {
            out.push_str(&run.to_string());
        }
    }
    out.push(' ');
    out.push(if color_ix(r.side) == 0 { 'w' } else { 'b' });
    out.push(' ');
    let cr = r.castling.index();
    if cr == 0 {
        out.push('-');
    } else {
        for (bit, ch) in [(1usize, 'K'), (0, 'Q'), (3, 'k'), (2, 'q')] {
            if cr & (1 << bit) != 0 {
                out.push(ch);
            }
        }
    }
    out.push(' ');
    match r.ep_source {
        None => out.push('-'),
        Some(c) => {
            out.push((b'a' + (c.index() % 8) as u8) as char);
            out.push(if color_ix(r.side) == 0 { '6' } else { '3' });
        }
    }
    out.push_str(&format!(" {} {}", r.move_counter, r.move_number));
    out
}
