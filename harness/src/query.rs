//! Pure per-position queries: everything the library computes about one position.
use crate::proj::*;
use owlchess::board::Board;
use owlchess::movegen::{self, legal, semilegal};
use owlchess::moves::{self, Move};
use owlchess::types::{Color, Coord};
use serde_json::{json, Map, Value};

pub struct Ctx {
    pub wf: Vec<Move>,
}

impl Ctx {
    pub fn new() -> Ctx {
        Ctx { wf: all_well_formed() }
    }
}

fn semi_vec(b: &Board) -> Vec<Move> {
    // the safe, unbounded sink
    let mut v = Vec::new();
    semilegal::gen_all_into(b, &mut v);
    v
}

/// C01: the five legal generators and the three other ways of deciding legality.
pub fn fields_c01(ctx: &Ctx, b: &Board, o: &mut Map<String, Value>) {
    o.insert("legal_all".into(), mvs_json(&legal::gen_all(b)));
    o.insert("legal_capture".into(), mvs_json(&legal::gen_capture(b)));
    o.insert("legal_simple".into(), mvs_json(&legal::gen_simple(b)));
    o.insert("legal_simple_no_promote".into(), mvs_json(&legal::gen_simple_no_promote(b)));
    o.insert("legal_simple_promote".into(), mvs_json(&legal::gen_simple_promote(b)));
    // validate() over all well-formed moves of the side to move
    let side = b.side();
    let mut val = Vec::new();
    for m in &ctx.wf {
        if m.src_cell().color() == Some(side) && m.validate(b).is_ok() {
            val.push(*m);
        }
    }
    o.insert("validate_ok".into(), mvs_json(&val));
    // apply + king-attack test, and is_legal_unchecked, over the semilegal moves
    let semi = semi_vec(b);
    let mut trymake = Vec::new();
    let mut unch = Vec::new();
    let mut make_ok = Vec::new();
    for m in &semi {
        let mut c = b.clone();
        let u = unsafe { moves::make_move_unchecked(&mut c, *m) };
        if !c.is_opponent_king_attacked() {
            trymake.push(*m);
        }
        unsafe { moves::unmake_move_unchecked(&mut c, *m, u) };
        if unsafe { m.is_legal_unchecked(b) } {
            unch.push(*m);
        }
        if b.make_move(*m).is_ok() {
            make_ok.push(*m);
        }
    }
    o.insert("semi_all".into(), mvs_json(&semi));
    o.insert("trymake_ok".into(), mvs_json(&trymake));
    o.insert("legal_unchecked_ok".into(), mvs_json(&unch));
    o.insert("make_ok".into(), mvs_json(&make_ok));
}

/// C03: successor position of every legal move.
pub fn fields_c03(_ctx: &Ctx, b: &Board, o: &mut Map<String, Value>) {
    let mut succ = Vec::new();
    for m in legal::gen_all(b).iter() {
        let r = std::panic::catch_unwind(|| b.make_move(*m));
        match r {
            Ok(Ok(nb)) => {
                // the other ways of applying a legal move must give the very same board (full projection)
                let want = crate::session::state_json(&nb);
                let same = std::panic::catch_unwind(|| {
                    use owlchess::moves::make::{TryUnchecked, Unchecked};
                    use owlchess::moves::Make;
                    let a = unsafe { Unchecked::new(*m) }.make(b).map(|x| crate::session::state_json(&x) == want).unwrap_or(false);
                    let t = unsafe { TryUnchecked::new(*m) }.make(b).map(|x| crate::session::state_json(&x) == want).unwrap_or(false);
                    let mut c = b.clone();
                    let r = m.make_raw(&mut c).is_ok() && crate::session::state_json(&c) == want;
                    let mut d = b.clone();
                    let r2 = unsafe { TryUnchecked::new(*m) }.make_raw(&mut d).is_ok() && crate::session::state_json(&d) == want;
                    a && t && r && r2 && m.uci().make(b).map(|x| crate::session::state_json(&x) == want).unwrap_or(false)
                })
                .unwrap_or(false);
                succ.push(json!({"m": mv_json(*m), "res": "ok", "pos": raw_json(nb.raw()), "same_by_other_appliers": same}))
            }
            Ok(Err(_)) => succ.push(json!({"m": mv_json(*m), "res": "err"})),
            Err(_) => succ.push(json!({"m": mv_json(*m), "res": "panic"})),
        }
    }
    o.insert("succ".into(), Value::Array(succ));
}

/// C06: semilegal generators, semilegal validation over ALL well-formed tuples of both colours.
pub fn fields_c06(ctx: &Ctx, b: &Board, o: &mut Map<String, Value>) {
    let mut v = Vec::new();
    semilegal::gen_all_into(b, &mut v);
    o.insert("semi_all".into(), mvs_json(&v));
    let mut v = Vec::new();
    semilegal::gen_capture_into(b, &mut v);
    o.insert("semi_capture".into(), mvs_json(&v));
    let mut v = Vec::new();
    semilegal::gen_simple_into(b, &mut v);
    o.insert("semi_simple".into(), mvs_json(&v));
    let mut v = Vec::new();
    semilegal::gen_simple_no_promote_into(b, &mut v);
    o.insert("semi_simple_no_promote".into(), mvs_json(&v));
    let mut v = Vec::new();
    semilegal::gen_simple_promote_into(b, &mut v);
    o.insert("semi_simple_promote".into(), mvs_json(&v));
    let mut sv = Vec::new();
    for m in &ctx.wf {
        if m.semi_validate(b).is_ok() {
            sv.push(*m);
        }
    }
    o.insert("semi_validate_ok".into(), mvs_json(&sv));
    o.insert("null_semilegal".into(), json!(Move::NULL.is_semilegal(b)));
    o.insert("legal_all".into(), mvs_json(&legal::gen_all(b)));
}

/// C07: outcome classification.
pub fn fields_c07(_ctx: &Ctx, b: &Board, o: &mut Map<String, Value>) {
    o.insert("has_legal".into(), json!(b.has_legal_moves()));
    o.insert("has_legal_fn".into(), json!(movegen::has_legal_moves(b)));
    o.insert("is_check".into(), json!(b.is_check()));
    o.insert("outcome".into(), outcome_json(&b.calc_outcome()));
    o.insert(
        "draw_simple".into(),
        json!(b.calc_draw_simple().map(draw_str).unwrap_or("none")),
    );
}

/// C16: attack and check queries for 64 squares x 2 colours.
pub fn fields_c16(_ctx: &Ctx, b: &Board, o: &mut Map<String, Value>) {
    let mut attacked = Vec::new();
    let mut attackers = Vec::new();
    for col in [Color::White, Color::Black] {
        let mut a = Vec::new();
        let mut at = Vec::new();
        for c in Coord::iter() {
            if movegen::is_cell_attacked(b, c, col) {
                a.push(c.index());
            }
            at.push(bb_json(movegen::cell_attackers(b, c, col)));
        }
        attacked.push(json!(a));
        attackers.push(Value::Array(at));
    }
    o.insert("attacked".into(), Value::Array(attacked));
    o.insert("attackers".into(), Value::Array(attackers));
    o.insert("is_check".into(), json!(b.is_check()));
    o.insert("checkers".into(), bb_json(b.checkers()));
    o.insert("opp_king_attacked".into(), json!(b.is_opponent_king_attacked()));
    o.insert("king_pos".into(), json!([b.king_pos(Color::White).index(), b.king_pos(Color::Black).index()]));
}

pub fn query_event(ctx: &Ctx, b: &Board, prop: &str) -> Value {
    let mut o = Map::new();
    o.insert("ev".into(), json!("q"));
    o.insert("pos".into(), raw_json(b.raw()));
    match prop {
        "C01" => fields_c01(ctx, b, &mut o),
        "C03" => fields_c03(ctx, b, &mut o),
        "C06" => fields_c06(ctx, b, &mut o),
        "C07" => fields_c07(ctx, b, &mut o),
        "C16" => fields_c16(ctx, b, &mut o),
        _ => panic!("no query fields for {prop}"),
    }
    Value::Object(o)
}
