//! Stateful sessions on a stand-alone Board: nested make/unmake walks (C04, C05).
use crate::posgen;
use crate::proj::*;
use owlchess::board::{Board, RawBoard};
use owlchess::movegen::semilegal;
use owlchess::moves::{self, Move, RawUndo};
use owlchess::types::{CastlingRights, Cell, Color, Coord, Piece};
use rand::rngs::StdRng;
use rand::seq::SliceRandom;
use rand::Rng;
use serde_json::{json, Value};

pub fn state_json(b: &Board) -> Value {
    json!({"pos": raw_json(b.raw()), "der": derived_json(b)})
}

fn with(mut v: Value, k: &str, x: Value) -> Value {
    v.as_object_mut().unwrap().insert(k.to_string(), x);
    v
}

/// An executor of make/unmake scripts; every step emits the full projected state.
pub struct Live {
    pub b: Board,
    pub stack: Vec<(Move, RawUndo)>,
}

impl Live {
    pub fn reset(b: Board) -> (Live, Value) {
        let ev = with(state_json(&b), "ev", json!("reset"));
        (Live { b, stack: Vec::new() }, ev)
    }

    pub fn make(&mut self, m: Move) -> Value {
        let u = unsafe { moves::make_move_unchecked(&mut self.b, m) };
        self.stack.push((m, u));
        let mut ev = with(state_json(&self.b), "ev", json!("make"));
        ev = with(ev, "m", mv_json(m));
        with(ev, "exposed", json!(self.b.is_opponent_king_attacked()))
    }

    pub fn unmake(&mut self) -> Value {
        let (m, u) = self.stack.pop().unwrap();
        unsafe { moves::unmake_move_unchecked(&mut self.b, m, u) };
        let ev = with(state_json(&self.b), "ev", json!("unmake"));
        with(ev, "m", mv_json(m))
    }
}

/// DFS-shaped random walk like a search would do: all semilegal moves (also king-exposing ones)
/// and the null move; after a king-exposing move the only permitted operation is unmake.
pub fn walk(rng: &mut StdRng, start: &Board, max_ops: usize, max_depth: usize) -> Vec<Value> {
    let mut out = Vec::new();
    let (mut live, ev) = Live::reset(start.clone());
    out.push(ev);
    let mut exposed = false;
    while out.len() < max_ops {
        let can_make = !exposed && live.stack.len() < max_depth;
        let want_make = can_make && (live.stack.is_empty() || rng.gen_bool(0.55));
        if want_make {
            let mut mv = Vec::new();
            semilegal::gen_all_into(&live.b, &mut mv);
            // bias towards special kinds and captures
            let special: Vec<Move> = mv
                .iter()
                .copied()
                .filter(|m| m.kind() != moves::MoveKind::Simple || live.b.get(m.dst()).is_occupied())
                .collect();
            let m = if !live.b.is_check() && rng.gen_bool(0.07) {
                Move::NULL
            } else if !special.is_empty() && rng.gen_bool(0.5) {
                *special.choose(rng).unwrap()
            } else if let Some(m) = mv.choose(rng) {
                *m
            } else {
                if live.stack.is_empty() {
                    break;
                }
                out.push(live.unmake());
                exposed = false;
                continue;
            };
            let ev = live.make(m);
            exposed = ev["exposed"].as_bool().unwrap();
            out.push(ev);
        } else if !live.stack.is_empty() {
            out.push(live.unmake());
            exposed = false;
        } else {
            break;
        }
    }
    // unwind completely: the start must be restored
    while !live.stack.is_empty() {
        out.push(live.unmake());
    }
    out
}

/// Exhaustive one-ply make/unmake of every semilegal move and the null move (no sampling).
pub fn all_moves_once(start: &Board) -> Vec<Value> {
    let mut out = Vec::new();
    let (mut live, ev) = Live::reset(start.clone());
    out.push(ev);
    let mut mv = Vec::new();
    semilegal::gen_all_into(start, &mut mv);
    if !start.is_check() {
        mv.push(Move::NULL);
    }
    for m in mv {
        out.push(live.make(m));
        out.push(live.unmake());
    }
    out
}

/// Re-executes a recorded session (events from a `reset` on) against the current code.
pub fn reexec(events: &[Value]) -> Vec<Value> {
    let mut out = Vec::new();
    let mut live: Option<Live> = None;
    for ev in events {
        match ev["ev"].as_str().unwrap_or("") {
            "reset" => {
                let b = Board::try_from(raw_from_json(&ev["pos"])).expect("valid start");
                let (l, e) = Live::reset(b);
                live = Some(l);
                out.push(e);
            }
            "make" => {
                let m = mv_from_json(&ev["m"]).expect("well-formed move");
                out.push(live.as_mut().unwrap().make(m));
            }
            "unmake" => out.push(live.as_mut().unwrap().unmake()),
            _ => {}
        }
    }
    out
}

/// Pairs of raw boards for the hash clauses of C05: same key / different counters, and
/// single-feature differences.  Hashes come from RawBoard::zobrist_hash (from scratch) and,
/// when the board is valid, also from Board::zobrist_hash (stored).
pub fn hash_pairs(rng: &mut StdRng, b: &Board) -> Vec<Value> {
    let a = *b.raw();
    let mut res = Vec::new();
    let side_hash = |r: &RawBoard| -> Value {
        let stored = Board::try_from(*r).ok().filter(|bb| bb.raw() == r).map(|bb| hex(bb.zobrist_hash()));
        json!({"pos": raw_json(r), "scratch": hex(r.zobrist_hash()), "stored": stored.unwrap_or_default()})
    };
    let mut push = |kind: &str, x: &RawBoard, y: &RawBoard| {
        res.push(json!({"ev": "hashpair", "kind": kind, "a": side_hash(x), "b": side_hash(y)}));
    };
    // counters only
    let mut c = a;
    c.move_counter = rng.gen();
    c.move_number = rng.gen();
    push("counters", &a, &c);
    // one man on one square
    for _ in 0..4 {
        let mut c = a;
        let sq = rng.gen_range(0..64);
        let mut cell = Cell::from_index(rng.gen_range(0..13));
        if cell == c.cells[sq] {
            cell = Cell::from_index((cell.index() + 1) % 13);
        }
        c.cells[sq] = cell;
        push("cell", &a, &c);
    }
    // side
    let mut c = a;
    c.side = c.side.inv();
    push("side", &a, &c);
    // one castling right
    for bit in 0..4 {
        let mut c = a;
        c.castling = CastlingRights::from_index(c.castling.index() ^ (1 << bit));
        push("right", &a, &c);
    }
    // en-passant file (mark on the rank appropriate to the side to move)
    let rank = match a.side {
        Color::White => 3,
        Color::Black => 4,
    };
    let f1 = rng.gen_range(0..8);
    let mut c = a;
    let cur = a.ep_source.map(|x| x.index());
    let cand = rank * 8 + f1;
    c.ep_source = if cur == Some(cand) { None } else { Some(Coord::from_index(cand)) };
    push("ep", &a, &c);
    let _ = Piece::Pawn;
    res
}

/// EVERY single-feature difference from one base board (any cell value on any square, side, each right,
/// every e.p. mark on both e.p. ranks): together with XOR-linearity this is "one feature differs => the
/// hash differs" for the key tables of the build under test.
pub fn all_single_feature_pairs(b: &Board) -> Vec<Value> {
    let a = *b.raw();
    let mut res = Vec::new();
    let item = |r: &RawBoard| -> Value { json!({"pos": raw_json(r), "scratch": hex(r.zobrist_hash()), "stored": ""}) };
    let mut push = |kind: &str, y: &RawBoard| {
        res.push(json!({"ev": "hashpair", "kind": kind, "a": item(&a), "b": item(y)}));
    };
    for sq in 0..64 {
        for cell in 0..13 {
            let c = Cell::from_index(cell);
            if c != a.cells[sq] {
                let mut y = a;
                y.cells[sq] = c;
                push("cell", &y);
            }
        }
    }
    let mut y = a;
    y.side = y.side.inv();
    push("side", &y);
    for bit in 0..4 {
        let mut y = a;
        y.castling = CastlingRights::from_index(y.castling.index() ^ (1 << bit));
        push("right", &y);
    }
    for side in [Color::White, Color::Black] {
        // marks on the rank appropriate to `side`; compared with the same board (same side) without a mark
        let rank = if side == Color::White { 3 } else { 4 };
        let mut base = a;
        base.side = side;
        base.ep_source = None;
        for f in 0..8 {
            let mut y = base;
            y.ep_source = Some(Coord::from_index(rank * 8 + f));
            res.push(json!({"ev": "hashpair", "kind": "ep", "a": item(&base), "b": item(&y)}));
            for g in (f + 1)..8 {
                let mut z = base;
                z.ep_source = Some(Coord::from_index(rank * 8 + g));
                res.push(json!({"ev": "hashpair", "kind": "ep", "a": item(&y), "b": item(&z)}));
            }
        }
    }
    res
}

pub fn gen_sessions(prop: &str, n: usize, seed_rng: &mut StdRng, sink: &mut crate::Sink) {
    let positions = posgen::mixed(seed_rng, n);
    if prop == "C05" {
        for b in positions.iter().take(2) {
            for e in all_single_feature_pairs(b) {
                sink.emit(&e);
            }
        }
    }
    for (i, b) in positions.iter().enumerate() {
        let evs = if i % 3 == 0 {
            all_moves_once(b)
        } else {
            let ops = seed_rng.gen_range(10..60);
            walk(seed_rng, b, ops, 12)
        };
        let mut evs = evs;
        if prop == "C05" && i % 2 == 0 {
            evs.extend(hash_pairs(seed_rng, b));
        }
        if sink.room() < evs.len() {
            sink.rotate();
        }
        sink.begin(&json!({"prop": prop, "session_start": crate::proj::own_fen(b.raw())}));
        for e in evs {
            sink.emit(&e);
        }
    }
}
