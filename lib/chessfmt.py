"""Small independent helpers: FEN <-> JSON position (the encoding used by the TLA+ spec)."""
CELLS = ".PKNBRQpknbrq"

def fen_to_pos(fen):
    parts = fen.split()
    rows = parts[0].split('/')
    assert len(rows) == 8, fen
    cells = []
    for row in rows:
        n = 0
        for ch in row:
            if ch.isdigit():
                cells += [0] * int(ch); n += int(ch)
            else:
                cells.append(CELLS.index(ch)); n += 1
        assert n == 8, fen
    side = 0 if parts[1] == 'w' else 1
    cr = 0
    if parts[2] != '-':
        for ch in parts[2]:
            cr |= {'Q': 1, 'K': 2, 'q': 4, 'k': 8}[ch]
    ep = -1
    if len(parts) > 3 and parts[3] != '-':
        f = ord(parts[3][0]) - ord('a')
        # ep field names the square passed over; the spec stores the pawn's square
        ep = (3 if side == 0 else 4) * 8 + f
    hm = int(parts[4]) if len(parts) > 4 else 0
    fm = int(parts[5]) if len(parts) > 5 else 1
    return {"cells": cells, "side": side, "castling": cr, "ep": ep, "hm": hm, "fm": fm}

def pos_to_fen(p):
    rows = []
    for r in range(8):
        s = ''; e = 0
        for f in range(8):
            c = p["cells"][8 * r + f]
            if c == 0:
                e += 1
            else:
                if e: s += str(e); e = 0
                s += CELLS[c]
        if e: s += str(e)
        rows.append(s)
    cr = ''.join(ch for bit, ch in [(2, 'K'), (1, 'Q'), (8, 'k'), (4, 'q')] if p["castling"] & bit) or '-'
    ep = '-'
    if p["ep"] != -1:
        f = p["ep"] % 8
        ep = "abcdefgh"[f] + ('6' if p["side"] == 0 else '3')
    return f"{'/'.join(rows)} {'wb'[p['side']]} {cr} {ep} {p['hm']} {p['fm']}"

def sq_name(s):
    return "abcdefgh"[s % 8] + str(8 - s // 8)

def move_str(m):
    k, c, s, d = m
    if k == 0: return "0000"
    return sq_name(s) + sq_name(d) + {6: 'n', 7: 'b', 8: 'r', 9: 'q'}.get(k, '')
