"""Per-property decision procedures (DESIGN.md section 5), built from the engines in vlib."""
import copy, json, os, random, subprocess, sys, time, glob
from vlib import *  # noqa

# ---------------------------------------------------------------------------------------------
# setup
# ---------------------------------------------------------------------------------------------
MODULES = ["Geometry", "Rules", "JsonPos", "SelfTest", "Trace"]


def setup():
    try:
        build_harness("checked")
    except ToolError as e:
        log("SETUP-ERROR", e)
        return 2
    rc = 0
    for m in sorted(glob.glob(os.path.join(SPEC, "*.tla"))):
        p = subprocess.run(["java", "-cp", TLA_CP, "tla2sany.SANY", os.path.basename(m)], cwd=SPEC,
                           capture_output=True, text=True)
        ok = p.returncode == 0 and "*** Errors" not in p.stdout and "Fatal errors" not in p.stdout
        log(f"[sany] {os.path.basename(m)}: {'ok' if ok else 'FAILED'}")
        if not ok:
            log(p.stdout[-2000:])
            rc = 2
    return rc


# ---------------------------------------------------------------------------------------------
# oracle self-test (who checks the oracle: DESIGN 2.6)
# ---------------------------------------------------------------------------------------------
def selftest(run, depth):
    r = run_tlc("SelfTest", "SelfTest.cfg", env={"PERFT_DEPTH": depth}, timeout=1800, xmx="3g", tag=f"selftest-{run.prop}")
    if '<<"SELFTEST-OK"' not in r["out"] or "SELFTEST-FAIL" in r["out"]:
        run.tool_error("spec self-test failed (defect of the model, not of the code):\n" + r["out"][-3000:])
        return False
    run.extra["oracle_selftest"] = f"perft depth {depth} of 6 standard positions + mirror/flop symmetry: ok"
    return True


# ---------------------------------------------------------------------------------------------
# query-event properties: C01 C03 C06 C07 C16
# ---------------------------------------------------------------------------------------------
def special_kinds(moves):
    return sorted({m[0] for m in moves if m[0] != 1})


def classify_q(prop):
    """Non-triviality rule per property, evaluated on the implementation's own output."""
    def f(ev):
        if ev.get("ev") != "q" or "panic" in ev:
            return None
        fen = fen_of(ev).rsplit(" ", 2)[0]
        if prop == "C01":
            nt = len(ev["semi_all"]) != len(ev["legal_all"]) or special_kinds(ev["legal_all"])
        elif prop == "C03":
            nt = any(s["m"][0] != 1 for s in ev["succ"]) or ev["pos"]["hm"] >= 99 or ev["pos"]["fm"] >= 65534
        elif prop == "C06":
            nt = len(ev["semi_all"]) != len(ev["legal_all"]) or special_kinds(ev["semi_all"])
        elif prop == "C07":
            nt = ev["outcome"] != ["none"] or ev["is_check"] or ev["pos"]["hm"] >= 99
        elif prop == "C16":
            nt = ev["is_check"] or len(ev["attacked"][0]) + len(ev["attacked"][1]) > 20
        else:
            nt = True
        return fen if nt else None
    return f


RULES = {
    "C01": "positions = curated corpus + random playouts + random placements (<=16 men/side, any rights/ep/counters) + local mutations; distinct by FEN without counters; non-trivial = some pseudo-legal move is illegal (pin/check/king walk) or a castling/double/e.p./promotion move is legal",
    "C03": "same position stream; one transition per legal move; non-trivial = position has a special-kind legal move or a counter at a threshold (hm>=99, fm>=65534)",
    "C06": "same position stream; all 10x13x64x64 tuples tried once for well-formedness, all well-formed tuples of both colours tried per position; non-trivial = has pseudo-legal-illegal or special-kind moves",
    "C07": "same position stream; non-trivial = outcome is not 'none', or side to move in check, or clock >= 99",
    "C16": "same position stream; 64 squares x 2 colours per position; non-trivial = in check or more than 20 attacked squares",
}

SIZES = {  # (quick positions, thorough positions)
    "C01": (3000, 120000),
    "C03": (2500, 100000),
    "C06": (3000, 120000),
    "C07": (6000, 200000),
    "C16": (2500, 80000),
}


def ident_q(prop):
    def f(ev, failed):
        if ev is None:
            return "unknown"
        return f"{fen_of(ev)} :: {','.join(failed)}"
    return f


def corrupt_q(prop, ev):
    """Flip one logged field relevant to the property: the corrupted trace MUST be rejected."""
    ev = copy.deepcopy(ev)
    if prop == "C01":
        if ev["legal_all"]:
            ev["legal_all"] = ev["legal_all"][1:]
        else:
            ev["legal_all"] = [[1, 2, 0, 1]]
    elif prop == "C03":
        if not ev["succ"]:
            return None
        p = ev["succ"][0]["pos"]
        p["hm"] = p["hm"] + 1
    elif prop == "C06":
        if ev["semi_validate_ok"]:
            ev["semi_validate_ok"] = ev["semi_validate_ok"][:-1]
        else:
            return None
    elif prop == "C07":
        ev["has_legal"] = not ev["has_legal"]
    elif prop == "C16":
        sq = 5
        a = ev["attacked"][0]
        ev["attacked"][0] = [x for x in a if x != sq] if sq in a else sorted(a + [sq])
    return ev


def corruption_test(run, prop, src_dir, corrupt_fn, n=8):
    """Anti-vacuity: a trace with one field flipped per event must be rejected line by line."""
    shards = sorted(glob.glob(os.path.join(src_dir, "shard_*.ndjson")))
    if not shards:
        run.tool_error("corruption test: no shard to corrupt")
        return
    evs = read_lines(shards[0])
    bad = []
    for ev in evs:
        if "panic" in ev:
            continue
        c = corrupt_fn(prop, ev)
        if c is not None:
            bad.append(c)
        if len(bad) >= n:
            break
    if not bad:
        run.tool_error("corruption test: nothing corruptible")
        return
    d = fresh_dir(os.path.join(WORK, f"{prop}-corrupt"))
    with open(os.path.join(d, "shard_0000.ndjson"), "w") as f:
        for ev in bad:
            f.write(json.dumps(ev) + "\n")
    r = validate_shard(prop, os.path.join(d, "shard_0000.ndjson"))
    caught = len({ln for ln, _ in r["nonconf"]})
    if r.get("rejected_at"):
        caught += 1
    run.extra["corruption_test"] = {"corrupted_events": len(bad), "rejected": caught}
    if r["error"] or caught < len(bad):
        run.tool_error(f"corruption test: only {caught} of {len(bad)} corrupted events were rejected "
                       f"(the binding does not bind)\n{(r['error'] or '')[-1500:]}")


def plan_queries(prop, tier, seed):
    run = Run(prop, tier, seed, "model_checking")
    run.rule = RULES[prop]
    run.assumptions = [
        "the TLA+ reference layer (spec/Rules.tla) is the oracle; it is pinned to published perft counts and to its own symmetries by spec/SelfTest.tla",
        "coverage is bounded: the listed number of positions, not all positions",
        "TLC 1.8.0 evaluates the spec correctly; the harness projection (harness/src/proj.rs) reports the library's values faithfully",
    ]
    try:
        binary = build_harness("checked")
    except ToolError as e:
        run.tool_error(str(e))
        return run.finish()
    n = SIZES[prop][0 if tier == "quick" else 1]
    out = fresh_dir(os.path.join(WORK, f"{prop}-{tier}"))
    cap = 250 if tier == "quick" else 2000
    t0 = time.time()
    rc, txt = run_harness(binary, ["gen", prop, n, seed, out, cap])
    log(f"[gen] {txt.strip().splitlines()[-1] if txt.strip() else ''} rc={rc} in {time.time() - t0:.1f}s")
    if rc != 0:
        wal = os.path.join(out, "wal.json")
        if os.path.exists(wal):
            w = json.load(open(wal))
            run.violation("crash:" + json.dumps(w), {"engine": "i2s", "crash": w, "output": txt[-2000:]},
                          "the library aborted the process on this input")
        else:
            run.tool_error("harness gen failed:\n" + txt[-3000:])
            return run.finish()
    # oracle self-test runs concurrently with validation (one more JVM)
    with ThreadPoolExecutor(max_workers=2) as ex:
        fs = ex.submit(selftest, run, 2 if tier == "quick" else 3)
        res = validate_dir(prop, out)
        fs.result()
    run.add_trace_results(res, ident_q(prop), classify_q(prop))
    corruption_test(run, prop, out, corrupt_q)
    if len(run.nontrivial) < 2:
        run.tool_error("vacuous coverage: fewer than 2 non-trivial positions")
    return run.finish()


# ---------------------------------------------------------------------------------------------
# stand-alone Board sessions: C04 C05 (make/unmake walks) + the bounded model MC_Impl
# ---------------------------------------------------------------------------------------------
def session_payload(evs, line):
    """The session prefix needed to re-execute a failing line: from the last reset up to it."""
    i = line - 1
    start = i
    while start > 0 and evs[start].get("ev") != "reset":
        start -= 1
    if evs[i].get("ev") in ("reset", "make", "unmake"):
        return {"session": evs[start:i + 1]}
    return {}


def ident_session(prop):
    def f(ev, failed):
        if ev is None:
            return "unknown"
        if ev.get("ev") == "hashpair":
            return f"hashpair {ev['kind']} {chessfmt.pos_to_fen(ev['a']['pos'])} | {chessfmt.pos_to_fen(ev['b']['pos'])} :: {','.join(failed)}"
        m = chessfmt.move_str(ev["m"]) if "m" in ev else "-"
        return f"{ev.get('ev')} {m} -> {fen_of(ev)} :: {','.join(failed)}"
    return f


def classify_session(prop):
    def f(ev):
        if ev.get("ev") == "make":
            m = ev["m"]
            if m[0] != 1 or ev.get("exposed"):
                return f"{fen_of(ev)} {m}"
        if ev.get("ev") == "hashpair":
            return f"hp {ev['kind']} {chessfmt.pos_to_fen(ev['a']['pos'])}"
        return None
    return f


def split_sessions(evs):
    out, cur = [], []
    for ev in evs:
        if ev.get("ev") == "reset":
            if cur:
                out.append(cur)
            cur = [ev]
        elif ev.get("ev") in ("make", "unmake") and cur:
            cur.append(ev)
    if cur:
        out.append(cur)
    return out


def corruption_sessions(run, prop, src_dir, n=6):
    """Flip one logged field inside otherwise genuine sessions; every corrupted session must be rejected."""
    shards = sorted(glob.glob(os.path.join(src_dir, "shard_*.ndjson")))
    sess = split_sessions(read_lines(shards[0])) if shards else []
    bad = []
    for s in sess:
        want = "unmake" if prop == "C04" else "make"
        idx = [i for i, e in enumerate(s) if e["ev"] == want]
        if not idx:
            continue
        s = copy.deepcopy(s)
        e = s[idx[len(idx) // 2]]
        which = len(bad) % 3
        if which == 0:
            e["pos"]["hm"] = (e["pos"]["hm"] + 1) % 65536
        elif which == 1:
            e["der"]["hash"] = e["der"]["hash"][:-1] + ("0" if e["der"]["hash"][-1] != "0" else "1")
        else:
            a = e["der"]["all"]
            e["der"]["all"] = a[1:] if a else [0]
        bad.append(s)
        if len(bad) >= n:
            break
    if not bad:
        run.tool_error("corruption test: no session to corrupt")
        return
    d = fresh_dir(os.path.join(WORK, f"{prop}-corrupt"))
    with open(os.path.join(d, "shard_0000.ndjson"), "w") as f:
        for s in bad:
            for ev in s:
                f.write(json.dumps(ev) + "\n")
    r = validate_shard(prop, os.path.join(d, "shard_0000.ndjson"))
    # every corrupted session must contain at least one rejected line
    evs = read_lines(os.path.join(d, "shard_0000.ndjson"))
    starts = [i + 1 for i, e in enumerate(evs) if e["ev"] == "reset"] + [len(evs) + 1]
    lines = {ln for ln, _ in r["nonconf"]}
    caught = sum(1 for a, b in zip(starts, starts[1:]) if any(a <= ln < b for ln in lines))
    run.extra["corruption_test"] = {"corrupted_sessions": len(bad), "rejected": caught}
    if r["error"] or caught < len(bad):
        run.tool_error(f"corruption test: only {caught} of {len(bad)} corrupted sessions were rejected\n{(r['error'] or '')[-1500:]}")


def mc_impl(run, depth, first=None, last=None, timeout=3000):
    """Engine MC: the refinement obligations between the two layers of the spec on the corpus model."""
    env = {"DEPTH": depth, "EPFIX": 1}
    if first:
        env.update({"FIRST": first, "LAST": last})
    r = run_tlc("MC_Impl", "MC_Impl.cfg", env=env, workers=NCPU, xmx="12g", timeout=timeout, tag=f"mcimpl-{run.prop}",
                gc_threads=4)
    if "Model checking completed. No error has been found" not in r["out"]:
        run.tool_error("MC_Impl: the implementation-shaped layer does not refine the reference layer, or TLC failed "
                       "(a defect of the model, to be triaged against the code):\n" + r["out"][-3000:])
        return
    run.states += r["distinct"]
    run.transitions += r["generated"]
    run.extra["mc_impl"] = {"depth": depth, "distinct_states": r["distinct"], "states_generated": r["generated"],
                            "invariants": ["Inv_C05", "Inv_C04", "Inv_C03", "Inv_Legal", "Inv_Valid"],
                            "wall_s": round(r["wall"], 1)}


SESSION_SIZES = {"C04": (260, 12000), "C05": (220, 10000)}
RULES["C04"] = "sessions = nested make/unmake walks (DFS-shaped, all semilegal moves incl. king-exposing ones, null move) and exhaustive one-ply make+unmake of every semilegal move, from corpus/playout/placement/mutation positions; full projected state (6 raw fields, hash, 16 sets) logged after every step; non-trivial = distinct (position, move) with a special kind (castling, double, e.p., promotion, null) or king-exposing"
RULES["C05"] = "same sessions; every logged state checked (hash = scratch hash, 16 sets = sets rebuilt by the spec from the squares, key->hash functional and injective within the session) + hash pairs (same key/different counters, single-feature differences: one cell, side, one right, e.p. file); non-trivial as for C04 plus each distinct hash pair"


def plan_sessions(prop, tier, seed):
    run = Run(prop, tier, seed, "model_checking")
    run.rule = RULES[prop]
    run.assumptions = [
        "spec/BoardImpl.tla transcribes do_make_move/do_unmake_move; TLC checks on the bounded model MC_Impl that it refines the reference layer (Rules!ApplyMove, Scratch) and that unmake inverts make",
        "hash values are compared as opaque 64-bit strings; collisions between unrelated positions are outside the statement",
        "bounded: the listed sessions and the MC_Impl depth, not all histories",
    ]
    try:
        binary = build_harness("checked")
    except ToolError as e:
        run.tool_error(str(e))
        return run.finish()
    n = SESSION_SIZES[prop][0 if tier == "quick" else 1]
    out = fresh_dir(os.path.join(WORK, f"{prop}-{tier}"))
    cap = 700 if tier == "quick" else 3000
    t0 = time.time()
    rc, txt = run_harness(binary, ["gen", prop, n, seed, out, cap])
    log(f"[gen] {txt.strip().splitlines()[-1] if txt.strip() else ''} rc={rc} in {time.time() - t0:.1f}s")
    if rc != 0:
        wal = os.path.join(out, "wal.json")
        if os.path.exists(wal):
            w = json.load(open(wal))
            run.violation("crash:" + json.dumps(w), {"engine": "i2s", "crash": w, "output": txt[-2000:]},
                          "the library aborted the process on this input")
        else:
            run.tool_error("harness gen failed:\n" + txt[-3000:])
            return run.finish()
    res = validate_dir(prop, out)
    run.add_trace_results(res, ident_session(prop), classify_session(prop), session_payload)
    corruption_sessions(run, prop, out)
    # the model by itself (after the traces: 16 TLC workers would starve the validators)
    mc_impl(run, 1 if tier == "quick" else 2)
    if len(run.nontrivial) < 2:
        run.tool_error("vacuous coverage: fewer than 2 non-trivial cases")
    return run.finish()


# ---------------------------------------------------------------------------------------------
# replay of a recorded violation against the current code
# ---------------------------------------------------------------------------------------------
def replay(prop, path):
    try:
        rep = json.load(open(path))
    except Exception as e:
        log("cannot read replay file:", e)
        return 2
    try:
        binary = build_harness("checked")
    except ToolError as e:
        log(e)
        return 2
    d = fresh_dir(os.path.join(WORK, f"{prop}-replay"))
    inp = os.path.join(d, "input.json")
    json.dump(rep, open(inp, "w"))
    rc, txt = run_harness(binary, ["regen", prop, inp, d])
    if rc != 0:
        log("the library aborted or the harness failed while re-executing the input:\n" + txt[-2000:])
        print(f"VIOLATION property={prop} replay={path}")
        return 1
    res = validate_dir(prop, d, jobs=1)
    bad = False
    for r in res:
        if r["error"]:
            log(r["error"]); return 2
        if r["nonconf"] or not r["accepted"]:
            bad = True
            log("still failing:", r["nonconf"], "accepted=", r["accepted"])
    if bad:
        print(f"VIOLATION property={prop} replay={path}")
        return 1
    log("replay: the current code conforms on this input")
    return 0


PLANS = {p: plan_queries for p in ("C01", "C03", "C06", "C07", "C16")}
PLANS.update({"C04": plan_sessions, "C05": plan_sessions})


def run(prop, tier, seed):
    return PLANS[prop](prop, tier, seed)
