"""Per-property decision procedures (DESIGN.md section 5), built from the engines in vlib."""
import copy, json, os, random, subprocess, sys, time, glob
from vlib import *  # noqa

# ---------------------------------------------------------------------------------------------
# setup
# ---------------------------------------------------------------------------------------------
MODULES = ["Geometry", "Rules", "JsonPos", "SelfTest", "Trace"]


def setup():
    try:
        build_harness("checked")
    except ToolError as e:
        log("SETUP-ERROR", e)
        return 2
    rc = 0
    for m in sorted(glob.glob(os.path.join(SPEC, "*.tla"))):
        p = subprocess.run(["java", "-cp", TLA_CP, "tla2sany.SANY", os.path.basename(m)], cwd=SPEC, stdin=subprocess.DEVNULL,
                           capture_output=True, text=True)
        ok = p.returncode == 0 and "*** Errors" not in p.stdout and "Fatal errors" not in p.stdout
        log(f"[sany] {os.path.basename(m)}: {'ok' if ok else 'FAILED'}")
        if not ok:
            log(p.stdout[-2000:])
            rc = 2
    return rc


# ---------------------------------------------------------------------------------------------
# oracle self-test (who checks the oracle: DESIGN 2.6)
# ---------------------------------------------------------------------------------------------
def selftest(run, depth):
    r = run_tlc("SelfTest", "SelfTest.cfg", env={"PERFT_DEPTH": depth}, timeout=1800, xmx="3g", tag=f"selftest-{run.prop}")
    if '<<"SELFTEST-OK"' not in r["out"] or "SELFTEST-FAIL" in r["out"]:
        run.tool_error("spec self-test failed (defect of the model, not of the code):\n" + r["out"][-3000:])
        return False
    run.extra["oracle_selftest"] = f"perft depth {depth} of 6 standard positions + mirror/flop symmetry: ok"
    return True


# ---------------------------------------------------------------------------------------------
# query-event properties: C01 C03 C06 C07 C16
# ---------------------------------------------------------------------------------------------
def special_kinds(moves):
    return sorted({m[0] for m in moves if m[0] != 1})


def classify_q(prop):
    """Non-triviality rule per property, evaluated on the implementation's own output."""
    def f(ev):
        if ev.get("ev") != "q" or "panic" in ev:
            return None
        fen = fen_of(ev).rsplit(" ", 2)[0]
        if prop == "C01":
            nt = len(ev["semi_all"]) != len(ev["legal_all"]) or special_kinds(ev["legal_all"])
        elif prop == "C03":
            nt = any(s["m"][0] != 1 for s in ev["succ"]) or ev["pos"]["hm"] >= 99 or ev["pos"]["fm"] >= 65534
        elif prop == "C06":
            nt = len(ev["semi_all"]) != len(ev["legal_all"]) or special_kinds(ev["semi_all"])
        elif prop == "C07":
            nt = ev["outcome"] != ["none"] or ev["is_check"] or ev["pos"]["hm"] >= 99
        elif prop == "C16":
            nt = ev["is_check"] or len(ev["attacked"][0]) + len(ev["attacked"][1]) > 20
        else:
            nt = True
        return fen if nt else None
    return f


RULES = {
    "C01": "positions = curated corpus + random playouts + random placements (<=16 men/side, any rights/ep/counters) + local mutations; distinct by FEN without counters; non-trivial = some pseudo-legal move is illegal (pin/check/king walk) or a castling/double/e.p./promotion move is legal",
    "C03": "same position stream; one transition per legal move; non-trivial = position has a special-kind legal move or a counter at a threshold (hm>=99, fm>=65534)",
    "C06": "same position stream; all 10x13x64x64 tuples tried once for well-formedness, all well-formed tuples of both colours tried per position; non-trivial = has pseudo-legal-illegal or special-kind moves",
    "C07": "same position stream; non-trivial = outcome is not 'none', or side to move in check, or clock >= 99",
    "C16": "same position stream; 64 squares x 2 colours per position; non-trivial = in check or more than 20 attacked squares",
}

SIZES = {  # (quick positions, thorough positions)
    "C01": (3000, 120000),
    "C03": (2500, 100000),
    "C06": (3000, 120000),
    "C07": (6000, 200000),
    "C16": (2500, 80000),
}


def ident_q(prop):
    def f(ev, failed):
        if ev is None:
            return "unknown"
        return f"{fen_of(ev)} :: {','.join(failed)}"
    return f


def corrupt_q(prop, ev):
    """Flip one logged field relevant to the property: the corrupted trace MUST be rejected."""
    ev = copy.deepcopy(ev)
    if prop == "C01":
        if ev["legal_all"]:
            ev["legal_all"] = ev["legal_all"][1:]
        else:
            ev["legal_all"] = [[1, 2, 0, 1]]
    elif prop == "C03":
        if not ev["succ"]:
            return None
        p = ev["succ"][0]["pos"]
        p["hm"] = p["hm"] + 1
    elif prop == "C06":
        if ev["semi_validate_ok"]:
            ev["semi_validate_ok"] = ev["semi_validate_ok"][:-1]
        else:
            return None
    elif prop == "C07":
        ev["has_legal"] = not ev["has_legal"]
    elif prop == "C16":
        sq = 5
        a = ev["attacked"][0]
        ev["attacked"][0] = [x for x in a if x != sq] if sq in a else sorted(a + [sq])
    return ev


def corruption_test(run, prop, src_dir, corrupt_fn, n=8):
    """Anti-vacuity: a trace with one field flipped per event must be rejected line by line."""
    shards = sorted(glob.glob(os.path.join(src_dir, "shard_*.ndjson")))
    if not shards:
        run.tool_error("corruption test: no shard to corrupt")
        return
    evs = read_lines(shards[0])
    bad = []
    for ev in evs:
        if "panic" in ev:
            continue
        c = corrupt_fn(prop, ev)
        if c is not None:
            bad.append(c)
        if len(bad) >= n:
            break
    if not bad:
        run.tool_error("corruption test: nothing corruptible")
        return
    d = fresh_dir(os.path.join(WORK, f"{prop}-corrupt"))
    with open(os.path.join(d, "shard_0000.ndjson"), "w") as f:
        for ev in bad:
            f.write(json.dumps(ev) + "\n")
    r = validate_shard(prop, os.path.join(d, "shard_0000.ndjson"))
    caught = len({ln for ln, _ in r["nonconf"]})
    if r.get("rejected_at"):
        caught += 1
    run.extra["corruption_test"] = {"corrupted_events": len(bad), "rejected": caught}
    if r["error"] or caught < len(bad):
        run.tool_error(f"corruption test: only {caught} of {len(bad)} corrupted events were rejected "
                       f"(the binding does not bind)\n{(r['error'] or '')[-1500:]}")


# ---------------------------------------------------------------------------------------------
# structured families enumerated by TLC (spec/Families.tla, spec/MC_Families.tla) -> real code
# ---------------------------------------------------------------------------------------------
FAM_STRIDE = {  # family: (quick stride, thorough stride); stride 1 = exhaustive
    "EP": (331, 6), "EPEDGE": (1, 1), "ONLYEP": (7, 1), "PIN": (53, 1), "CASTLE": (5, 1),
    "PROMO": (2, 1), "MAT": (61, 2), "CHK": (1999, 37), "AMBIG": (997, 11), "RAW": (1, 1), "MINOR": (23, 1), "MULTICHK": (499, 3), "ROOKCAP": (1, 1), "EPCHK": (997, 9), "STALEMIN": (3, 1), "EPX": (13, 1), "EPCHKX": (41, 1), "PINMATE": (23, 1), "DBLCHK": (1, 1), "DBLPIN": (499, 5),
    "ONLYDBL": (3, 1), "PROMOEP": (1, 1), "CASTLEEP": (1, 1), "BATTERY": (149, 3), "EDGEPAWN": (1, 1), "ONLYPROMO": (200, 4), "EPEVADE": (30, 1), "ONLYEPCHK": (20, 2), "ONLYEPCHKPRE": (20, 2), "ONLYCAP": (3000, 100), "EDGESTALE": (10, 1), "EPRANK2": (10, 1),
}
FAMS_FOR = {
    "C01": ["EP", "EPX", "EPEDGE", "ONLYEP", "PIN", "DBLPIN", "CASTLE", "PROMO", "CHK", "MULTICHK", "BATTERY", "EDGEPAWN", "EPEVADE", "ONLYEPCHK", "ONLYCAP", "EDGESTALE", "EPRANK2"],
    "C03": ["EP", "EPEDGE", "CASTLE", "CASTLEEP", "PROMO", "PROMOEP", "MAT", "ROOKCAP"],
    "C06": ["EP", "EPEDGE", "PIN", "CASTLE", "PROMO", "CHK", "BATTERY", "EDGEPAWN", "EPEVADE"],
    "C07": ["EPX", "ONLYEP", "ONLYDBL", "ONLYPROMO", "PINMATE", "PIN", "MAT", "MINOR", "STALEMIN", "CHK", "MULTICHK", "CASTLE", "EPEVADE", "ONLYEPCHK", "ONLYCAP", "EDGESTALE"],
    "C16": ["PIN", "CHK", "CASTLE", "MULTICHK", "EP", "BATTERY", "EDGEPAWN"],
    "C04": ["EP", "CASTLE", "CASTLEEP", "PROMO", "PROMOEP", "ROOKCAP"],
    "C05": ["EP", "CASTLE", "CASTLEEP", "PROMO", "PROMOEP", "ROOKCAP"],
    "C09": ["AMBIG", "PIN", "DBLPIN", "PROMO", "EPX", "EPEDGE", "EPCHKX", "DBLCHK", "MULTICHK", "CASTLE", "EPEVADE", "ONLYEPCHKPRE"],
    "C08": ["ROOKCAP", "PROMO", "CASTLE", "CASTLEEP", "EPX"],
    "C10": ["EPX", "EPEDGE", "CASTLE", "PROMO", "BATTERY", "EPEVADE"],
    "C11": ["RAW", "EPEDGE", "CASTLE"],
    "C18": ["EP", "ONLYEP", "CASTLE", "ROOKCAP", "MAT", "MINOR", "PIN", "CHK", "EDGEPAWN", "PROMO", "MULTICHK", "EPRANK2"],
    "C14": ["STALEMIN", "MINOR", "MAT", "ONLYDBL", "PINMATE", "ONLYPROMO", "ONLYEPCHK", "PROMO", "EDGESTALE"],
    "C17": ["PROMO", "AMBIG", "CASTLE"],
    "C19": ["CHK", "AMBIG", "MULTICHK", "EPEDGE"],
    "C02": ["EPX", "EPEDGE", "ONLYEP", "PROMO", "ROOKCAP", "CASTLE", "PIN", "EPEVADE"],
    "C13": ["EPX", "PROMO", "ROOKCAP", "CASTLE", "PIN", "EPEVADE"],
}
# families whose positions are expensive per event (SAN: ~150 texts, UCI: 20 481 strings): thinner samples
FAM_MULT = {"C04": 5, "C05": 5, "C09": 5, "C10": 4, "C18": 3, "C02": 8, "C13": 8, "C14": 4, "C17": 8}


# per-property overrides of the family strides (quick, thorough) where one position costs many events
FAM_STRIDE_FOR = {
    "C01": {"MULTICHK": (2500, 40)},
    "C07": {"MULTICHK": (2500, 40)},
    "C19": {"MULTICHK": (1500, 20)},
    "C18": {"MULTICHK": (2500, 40)},
    "C09": {"ONLYEPCHKPRE": (20, 2), "ONLYCAP": (3000, 100), "EDGESTALE": (10, 1), "EPRANK2": (10, 1), "EPEVADE": (300, 10), "DBLCHK": (2, 1), "MULTICHK": (2500, 40)},
    "C14": {"ONLYDBL": (12, 1), "PINMATE": (120, 4), "ONLYPROMO": (800, 16), "ONLYEPCHK": (40, 4), "PROMO": (8, 2), "EDGESTALE": (40, 4)},
    "C08": {"CASTLE": (200, 10), "EPX": (100, 10), "PROMO": (4, 1), "ROOKCAP": (2, 1)},
    "C04": {"CASTLE": (80, 4), "CASTLEEP": (1, 1), "PROMOEP": (3, 1)},
    "C05": {"CASTLE": (80, 4), "CASTLEEP": (1, 1), "PROMOEP": (3, 1)},
    "C02": {"EPEVADE": (600, 40), "EPX": (60, 8), "EPEDGE": (6, 2), "ONLYEP": (60, 8), "PROMO": (20, 2), "ROOKCAP": (4, 1), "CASTLE": (300, 30), "PIN": (2000, 200)},
    "C13": {"EPEVADE": (800, 40), "EPX": (80, 8), "PROMO": (25, 2), "ROOKCAP": (4, 1), "CASTLE": (400, 30), "PIN": (3000, 200)},
}


def mc_notation(run, tier):
    """Engine MC on the notation layer: SanOf injective, SanResolve(SanDescribe(SanOf(m))) = {m}, UCI and FEN
    round trips, on the corpus (quick) and all successors (thorough)."""
    r = run_tlc("MC_Notation", "MC_Notation.cfg", env={"DEPTH": 0 if tier == "quick" else 1}, workers=8, xmx="6g",
                timeout=3000, tag=f"mcnot-{run.prop}", gc_threads=4)
    if "Model checking completed. No error has been found" not in r["out"]:
        run.tool_error("MC_Notation: the notation layer is not self-consistent (a defect of the model):\n" + r["out"][-2500:])
        return
    run.states += r["distinct"]
    run.transitions += r["generated"]
    run.extra["mc_notation"] = {"distinct_states": r["distinct"], "invariants": ["Inv_SanInjective", "Inv_SanResolves",
                                "Inv_UciRoundTrip", "Inv_FenRoundTrip", "Inv_Valid"]}


def mc_famimpl(run, tier, seed, fams, module="MC_FamImpl", mult=(4, 3), what=None, cfg=None, corpus=None, rel=False):
    """Engine MC: refinement obligations (prefilter/pin logic, generator, has_legal_moves, make/unmake with
    incremental hash and sets; with module=MC_SanImpl: the SAN writer/reader) on the structured families, at
    the design level."""
    qi = 0 if tier == "quick" else 1
    t0 = time.time()
    def one(f):
        # mult = (quick multiplier of the family's quick stride, divisor applied to THAT stride in the thorough tier)
        # when `rel` is set; otherwise (multiplier of the quick stride, multiplier of the thorough stride)
        if rel:
            stride = FAM_STRIDE[f][0] * mult[0] if qi == 0 else max(1, FAM_STRIDE[f][0] * mult[0] // mult[1])
        else:
            stride = FAM_STRIDE[f][qi] * mult[qi]
        r = run_tlc(module, cfg or module + ".cfg", env={"FAM_" + f: 1, "STRIDE": stride, "SEED": seed, "EPFIX": 1},
                    workers=max(2, NCPU // len(fams)), xmx="4g", timeout=3400, tag=f"{module}-{run.prop}-{f}", gc_threads=2)
        return f, stride, r
    info = {}
    with ThreadPoolExecutor(max_workers=len(fams)) as ex:
        for f, stride, r in ex.map(one, fams):
            if "Model checking completed. No error has been found" not in r["out"]:
                run.tool_error(f"{module}({f}): the implementation-shaped layer does not refine the reference layer "
                               f"(to be triaged against the code):\n" + r["out"][-2500:])
                continue
            run.states += r["distinct"]
            run.transitions += r["generated"]
            info[f] = {"stride": stride, "distinct_states": r["distinct"]}
    if corpus:
        # the same obligations on a slice of the curated corpus (ordinary positions: plain pawn captures, castlings)
        r = run_tlc(module, cfg or module + ".cfg", env={"CORPUS": 1, "FIRST": corpus[0], "LAST": corpus[1], "EPFIX": 1},
                    workers=4, xmx="4g", timeout=3400, tag=f"{module}-{run.prop}-corpus", gc_threads=2)
        if "Model checking completed. No error has been found" not in r["out"]:
            run.tool_error(f"{module}(corpus): the implementation-shaped layer does not refine the reference layer "
                           f"(to be triaged against the code):\n" + r["out"][-2500:])
        else:
            run.states += r["distinct"]
            info["corpus"] = {"first": corpus[0], "last": corpus[1], "distinct_states": r["distinct"]}
    run.extra[(cfg or module).replace(".cfg", "").lower()] = {"families": info,
                                 "invariant": what or "Inv_FamRefines (Obl_Legal, Obl_SemiValidate, Obl_Outcome, Obl_TryFrom, Obl_Make, Obl_Undo)",
                                 "wall_s": round(time.time() - t0, 1)}
    log(f"[mc] {module} {info} in {time.time() - t0:.1f}s")


def enumerate_family(run, fam, stride, seed, workers):
    """One TLC run of MC_Families for one family.  The sample is a deterministic function of (seed, stride);
    should it come out empty for some seed, the stride is reduced until it is not (never a vacuous pass)."""
    pos = []
    for attempt in range(6):
        env = {"FAM_" + fam: 1, "STRIDE": stride, "SEED": seed}
        r = run_tlc("MC_Families", "MC_Families.cfg", env=env, workers=workers, xmx="4g", timeout=3000,
                    tag=f"fam-{run.prop}-{fam}")
        if "Model checking completed. No error has been found" not in r["out"]:
            run.tool_error(f"MC_Families({fam}) failed:\n" + r["out"][-2500:])
            return []
        for m in re.finditer(r'^"POS (\w+) (.*)"\s*$', r["out"], re.M):
            pos.append({"fam": m.group(1), "pos": json.loads(m.group(2).replace('\\"', '"'))})
        run.states += r["distinct"]
        run.transitions += max(r["generated"] - 1, 0)
        if pos or stride == 1:
            break
        stride = max(1, stride // 4)
    return pos


def families(run, prop, tier, seed, binary, ident_fn, classify_fn, payload_fn=None, cap=None):
    """TLC enumerates the families (exhaustively in thorough, seed-sampled in quick); every valid position
    is replayed into the real code; the recorded results are validated against the spec."""
    fams = FAMS_FOR.get(prop, [])
    if not fams:
        return
    t0 = time.time()
    qi = 0 if tier == "quick" else 1
    wk = max(1, NCPU // max(1, len(fams)))
    # session properties replay ~35 make/unmake pairs per position: sample the families more thinly
    mult = FAM_MULT.get(prop, 1)
    stride = {f: (FAM_STRIDE[f][qi] * mult if FAM_STRIDE[f][qi] > 1 or mult == 1 else (3 if qi == 0 else 1)) for f in fams}
    for f, v in FAM_STRIDE_FOR.get(prop, {}).items():
        if f in stride:
            stride[f] = v[qi]
    if tier == "quick":
        with ThreadPoolExecutor(max_workers=len(fams)) as ex:
            lists = list(ex.map(lambda f: enumerate_family(run, f, stride[f], seed, wk), fams))
    else:
        # exhaustive / dense enumeration (some families evaluate Legal() in their filter): one family at a time
        # with all workers
        lists = [enumerate_family(run, f, stride[f], seed, NCPU) for f in fams]
    counts = {f: len(l) for f, l in zip(fams, lists)}
    allpos = [p for l in lists for p in l]
    log(f"[fam] TLC enumerated {len(allpos)} family positions {counts} in {time.time() - t0:.1f}s")
    run.extra["families"] = {"positions": counts, "stride": stride,
                             "exhaustive_families": [f for f in fams if stride[f] == 1]}
    for f, n in counts.items():
        if n == 0:
            run.tool_error(f"vacuous: family {f} produced no position")
    d = fresh_dir(os.path.join(WORK, f"{prop}-{tier}-fam"))
    pf = os.path.join(d, "positions.ndjson")
    with open(pf, "w") as f:
        for p in allpos:
            f.write(json.dumps(p) + "\n")
    rc, txt = run_harness(binary, ["gen-from", prop, pf, d, cap or (250 if tier == "quick" else 2000)])
    log(f"[gen] families: {txt.strip().splitlines()[-1] if txt.strip() else ''} rc={rc}")
    if not harness_outcome(run, rc, txt, d, engine="s2i"):
        return
    m = re.search(r"rejected_by_library=(\d+)", txt)
    if m and int(m.group(1)) > 0:
        run.tool_error(f"{m.group(1)} family positions that the spec calls valid were rejected or altered by "
                       f"Board::try_from (a C11 matter; see ./check C11)")
    res = validate_dir(prop, d)
    run.vectors += len(allpos)
    run.add_trace_results(res, ident_fn, classify_fn, payload_fn)


def plan_queries(prop, tier, seed):
    run = Run(prop, tier, seed, "model_checking")
    run.rule = RULES[prop]
    run.assumptions = [
        "the TLA+ reference layer (spec/Rules.tla) is the oracle; it is pinned to published perft counts and to its own symmetries by spec/SelfTest.tla",
        "coverage is bounded: the listed number of positions, not all positions",
        "TLC 1.8.0 evaluates the spec correctly; the harness projection (harness/src/proj.rs) reports the library's values faithfully",
    ]
    try:
        binary = build_harness("checked")
    except ToolError as e:
        run.tool_error(str(e))
        return run.finish()
    n = SIZES[prop][0 if tier == "quick" else 1]
    out = fresh_dir(os.path.join(WORK, f"{prop}-{tier}"))
    cap = 250 if tier == "quick" else 2000
    t0 = time.time()
    rc, txt = run_harness(binary, ["gen", prop, n, seed, out, cap],
                          env={"HARNESS_DEEP": "1"} if (tier == "thorough" and prop == "C16") else None)
    log(f"[gen] {txt.strip().splitlines()[-1] if txt.strip() else ''} rc={rc} in {time.time() - t0:.1f}s")
    if not harness_outcome(run, rc, txt, out):
        return run.finish()
    # oracle self-test runs concurrently with validation (one more JVM)
    with ThreadPoolExecutor(max_workers=2) as ex:
        fs = ex.submit(selftest, run, 2 if tier == "quick" else 3)
        res = validate_dir(prop, out)
        fs.result()
    run.add_trace_results(res, ident_q(prop), classify_q(prop))
    corruption_test(run, prop, out, corrupt_q)
    families(run, prop, tier, seed, binary, ident_q(prop), classify_q(prop))
    if prop in ("C01", "C06", "C07"):
        mc_famimpl(run, tier, seed, ["EP", "EPEDGE", "ONLYEP", "PIN", "CASTLE", "CHK", "BATTERY", "EDGEPAWN", "PROMO"])
    if len(run.nontrivial) < 2:
        run.tool_error("vacuous coverage: fewer than 2 non-trivial positions")
    return run.finish()


# ---------------------------------------------------------------------------------------------
# stand-alone Board sessions: C04 C05 (make/unmake walks) + the bounded model MC_Impl
# ---------------------------------------------------------------------------------------------
def session_payload(evs, line):
    """The session prefix needed to re-execute a failing line: from the last reset up to it."""
    i = line - 1
    start = i
    while start > 0 and evs[start].get("ev") != "reset":
        start -= 1
    if evs[i].get("ev") in ("reset", "make", "unmake"):
        return {"session": evs[start:i + 1]}
    return {}


def ident_session(prop):
    def f(ev, failed):
        if ev is None:
            return "unknown"
        if ev.get("ev") == "hashpair":
            return f"hashpair {ev['kind']} {chessfmt.pos_to_fen(ev['a']['pos'])} | {chessfmt.pos_to_fen(ev['b']['pos'])} :: {','.join(failed)}"
        m = chessfmt.move_str(ev["m"]) if "m" in ev else "-"
        return f"{ev.get('ev')} {m} -> {fen_of(ev)} :: {','.join(failed)}"
    return f


def classify_session(prop):
    def f(ev):
        if ev.get("ev") == "make":
            m = ev["m"]
            if m[0] != 1 or ev.get("exposed"):
                return f"{fen_of(ev)} {m}"
        if ev.get("ev") == "hashpair":
            return f"hp {ev['kind']} {chessfmt.pos_to_fen(ev['a']['pos'])}"
        return None
    return f


def split_sessions(evs):
    out, cur = [], []
    for ev in evs:
        if ev.get("ev") == "reset":
            if cur:
                out.append(cur)
            cur = [ev]
        elif ev.get("ev") in ("make", "unmake") and cur:
            cur.append(ev)
    if cur:
        out.append(cur)
    return out


def corruption_sessions(run, prop, src_dir, n=6):
    """Flip one logged field inside otherwise genuine sessions; every corrupted session must be rejected."""
    shards = sorted(glob.glob(os.path.join(src_dir, "shard_*.ndjson")))
    sess = []
    for sh in shards:
        sess += split_sessions(read_lines(sh))
        if len(sess) >= 12:
            break
    bad = []
    for s in sess:
        want = "unmake" if prop == "C04" else "make"
        idx = [i for i, e in enumerate(s) if e["ev"] == want]
        if not idx:
            continue
        s = copy.deepcopy(s)
        e = s[idx[len(idx) // 2]]
        which = len(bad) % 3
        if which == 0:
            e["pos"]["hm"] = (e["pos"]["hm"] + 1) % 65536
        elif which == 1:
            e["der"]["hash"] = e["der"]["hash"][:-1] + ("0" if e["der"]["hash"][-1] != "0" else "1")
        else:
            a = e["der"]["all"]
            e["der"]["all"] = a[1:] if a else [0]
        bad.append(s)
        if len(bad) >= n:
            break
    if not bad:
        run.tool_error("corruption test: no session to corrupt")
        return
    d = fresh_dir(os.path.join(WORK, f"{prop}-corrupt"))
    with open(os.path.join(d, "shard_0000.ndjson"), "w") as f:
        for s in bad:
            for ev in s:
                f.write(json.dumps(ev) + "\n")
    r = validate_shard(prop, os.path.join(d, "shard_0000.ndjson"))
    # every corrupted session must contain at least one rejected line
    evs = read_lines(os.path.join(d, "shard_0000.ndjson"))
    starts = [i + 1 for i, e in enumerate(evs) if e["ev"] == "reset"] + [len(evs) + 1]
    lines = {ln for ln, _ in r["nonconf"]}
    caught = sum(1 for a, b in zip(starts, starts[1:]) if any(a <= ln < b for ln in lines))
    run.extra["corruption_test"] = {"corrupted_sessions": len(bad), "rejected": caught}
    if r["error"] or caught < len(bad):
        run.tool_error(f"corruption test: only {caught} of {len(bad)} corrupted sessions were rejected\n{(r['error'] or '')[-1500:]}")


def mc_impl(run, depth, first=None, last=None, timeout=3000):
    """Engine MC: the refinement obligations between the two layers of the spec on the corpus model."""
    env = {"DEPTH": depth, "EPFIX": 1}
    if first:
        env.update({"FIRST": first, "LAST": last})
    r = run_tlc("MC_Impl", "MC_Impl.cfg", env=env, workers=NCPU, xmx="12g", timeout=timeout, tag=f"mcimpl-{run.prop}",
                gc_threads=4)
    if "Model checking completed. No error has been found" not in r["out"]:
        run.tool_error("MC_Impl: the implementation-shaped layer does not refine the reference layer, or TLC failed "
                       "(a defect of the model, to be triaged against the code):\n" + r["out"][-3000:])
        return
    run.states += r["distinct"]
    run.transitions += r["generated"]
    run.extra.setdefault("mc_impl", []).append({"depth": depth, "corpus_slice": [first or 1, last or "end"],
                            "distinct_states": r["distinct"], "states_generated": r["generated"],
                            "invariants": ["Inv_C05", "Inv_C04", "Inv_C03", "Inv_Legal", "Inv_Valid"],
                            "wall_s": round(r["wall"], 1)})


SESSION_SIZES = {"C04": (260, 12000), "C05": (220, 10000)}
RULES["C04"] = "sessions = nested make/unmake walks (DFS-shaped, all semilegal moves incl. king-exposing ones, null move) and exhaustive one-ply make+unmake of every semilegal move, from corpus/playout/placement/mutation positions; full projected state (6 raw fields, hash, 16 sets) logged after every step; non-trivial = distinct (position, move) with a special kind (castling, double, e.p., promotion, null) or king-exposing"
RULES["C05"] = "same sessions; every logged state checked (hash = scratch hash, 16 sets = sets rebuilt by the spec from the squares, key->hash functional and injective within the session) + hash pairs (same key/different counters, single-feature differences: one cell, side, one right, e.p. file); non-trivial as for C04 plus each distinct hash pair"


def plan_sessions(prop, tier, seed):
    run = Run(prop, tier, seed, "model_checking")
    run.rule = RULES[prop]
    run.assumptions = [
        "spec/BoardImpl.tla transcribes do_make_move/do_unmake_move; TLC checks on the bounded model MC_Impl that it refines the reference layer (Rules!ApplyMove, Scratch) and that unmake inverts make",
        "hash values are compared as opaque 64-bit strings; collisions between unrelated positions are outside the statement",
        "bounded: the listed sessions and the MC_Impl depth, not all histories",
    ]
    try:
        binary = build_harness("checked")
    except ToolError as e:
        run.tool_error(str(e))
        return run.finish()
    n = SESSION_SIZES[prop][0 if tier == "quick" else 1]
    out = fresh_dir(os.path.join(WORK, f"{prop}-{tier}"))
    cap = 700 if tier == "quick" else 3000
    t0 = time.time()
    rc, txt = run_harness(binary, ["gen", prop, n, seed, out, cap])
    log(f"[gen] {txt.strip().splitlines()[-1] if txt.strip() else ''} rc={rc} in {time.time() - t0:.1f}s")
    if not harness_outcome(run, rc, txt, out):
        return run.finish()
    res = validate_dir(prop, out)
    run.add_trace_results(res, ident_session(prop), classify_session(prop), session_payload)
    corruption_sessions(run, prop, out)
    families(run, prop, tier, seed, binary, ident_session(prop), classify_session(prop), session_payload,
             cap=700 if tier == "quick" else 3000)
    # the model by itself (after the traces: 16 TLC workers would starve the validators)
    mc_impl(run, 1 if tier == "quick" else 2)
    if tier == "thorough":
        # three plies deep (every nesting of make/unmake) from the special-move part of the corpus
        mc_impl(run, 3, first=19, last=62, timeout=3400)
    mc_famimpl(run, tier, seed, ["EP", "CASTLE", "PROMO", "PIN"])
    if len(run.nontrivial) < 2:
        run.tool_error("vacuous coverage: fewer than 2 non-trivial cases")
    return run.finish()


# ---------------------------------------------------------------------------------------------
# generic trace-validated properties: chain sessions (C02 C13 C14 C17) and text formats (C08 C09 C10 C12)
# ---------------------------------------------------------------------------------------------
def txt(cps):
    return "".join(chr(c) for c in cps)


class Classifier:
    """Stateful non-triviality rule: fed every event in order, returns a distinct key or None."""
    def __init__(self, prop):
        self.prop, self.sess, self.idx = prop, "", 0

    def __call__(self, ev):
        k = ev.get("ev", "")
        p = self.prop
        if k == "c_new":
            self.sess, self.idx = fen_of(ev), 0
        self.idx += 1
        here = f"{self.sess}#{self.idx}"
        if p == "C13":
            if k == "c_push" and (ev["res"] != "ok" or ev["m"][0] != 1):
                return here
            if k in ("c_pop", "c_eq"):
                return here
        elif p == "C14":
            if k in ("c_calc", "c_set_auto") and (ev["res"] != ["none"] or any(r >= 2 for r in ev.get("rep", []))):
                return here
        elif p == "C17":
            if k in ("c_walk", "c_text") and ev["obs"]["len"] >= 1:
                return here
        elif p == "C02":
            if k == "c_push":
                like = ev["like"]
                return f"{chessfmt.pos_to_fen(ev['obs']['last']['pos']) if ev['res']!='ok' else here} {like['t']} {like.get('m') or txt(like.get('text', []))}"
        elif p == "C08":
            if k in ("fen", "fenparse"):
                return txt(ev["text"])
        elif p == "C09":
            if k == "san" and any(len(x.get("san", [])) > 3 for x in ev["moves"]):
                return fen_of(ev)
        elif p == "C10":
            if k == "uci" and any(x[1][0] != 1 for x in ev["semi"]):
                return fen_of(ev)
        elif p == "C11":
            if k == "rawval":
                r = ev["res"]
                tag = "ok" if r["ok"] else r["err"][0]
                changed = r["ok"] and r["pos"] != ev["raw"]
                if (not r["ok"]) or changed:
                    return chessfmt.pos_to_fen(ev["raw"]) + f" ep={ev['raw']['ep']} {tag}"
        elif p == "C15":
            if k == "magic":
                return f"{ev['piece']}{ev['sq']}#{self.idx}"
            if k in ("between", "leapers"):
                return f"{k}{ev.get('src', '')}"
        elif p == "C18":
            if k == "sym" and (len(ev["a"]["legal"]) != 0) and (ev["a"]["check"] or ev["a"]["pos"]["ep"] != -1 or ev["a"]["pos"]["castling"] != 0 or ev["kind"] == "flop"):
                return ev["kind"] + " " + chessfmt.pos_to_fen(ev["a"]["pos"])
        elif p == "C19":
            if k == "cap" and ev.get("semi_len", 0) >= 60:
                return fen_of(ev)
            if k == "parse":
                return ev["what"] + ":" + txt(ev["text"]) + ":" + (chessfmt.pos_to_fen(ev["pos"]) if "pos" in ev else "")
        elif p == "C20":
            return f"{k}#{self.idx}"
        elif p == "C12":
            if k == "parse" and (ev["bytes"] != len(ev["text"]) or len(ev["text"]) <= 3 or ev["res"] == "ok"):
                return ev["what"] + ":" + txt(ev["text"])
        return None


def ident_generic(prop):
    def f(ev, failed):
        if ev is None:
            return "unknown"
        k = ev.get("ev", "")
        tags = ",".join(failed)
        if k.startswith("c_"):
            extra = ""
            if k == "c_push":
                like = ev["like"]
                extra = f" {like['t']}:{chessfmt.move_str(like['m']) if 'm' in like else repr(txt(like['text']))} -> {ev['res']}"
            if k == "c_set_auto":
                extra = " " + ev["filter"]
            return f"{k}{extra} @ {chessfmt.pos_to_fen(ev['obs']['last']['pos'])} len={ev['obs']['len']} :: {tags}"
        if k in ("fen", "san", "uci"):
            return f"{k} {fen_of(ev)} :: {tags}"
        if k == "fenparse":
            return f"fenparse {txt(ev['text'])!r} :: {tags}"
        if k == "parse":
            return f"parse {ev['what']} {txt(ev['text'])!r} :: {tags}"
        if k == "rawval":
            return f"rawval {chessfmt.pos_to_fen(ev['raw'])} ep_mark={ev['raw']['ep']} :: {tags}"
        if k == "between":
            off = {"bishop_strict_empty_off_diagonals", "rook_strict_empty_off_lines"}
            if set(failed) <= off:
                return "between tables on non-aligned pairs :: " + tags      # one class, whatever the source square
            return f"between src={ev['src']} :: {tags}"
        if k == "magic":
            return f"magic {ev['piece']} sq={ev['sq']} :: {tags}"
        if k == "sym":
            return f"sym {ev['kind']} {chessfmt.pos_to_fen(ev['a']['pos'])} :: {tags}"
        if k == "cap":
            return f"cap {fen_of(ev)} :: {tags}"
        return f"{k} :: {tags}"
    return f


def chain_payload(evs, line):
    i = line - 1
    if not evs[i].get("ev", "").startswith("c_"):
        return {}
    start = i
    while start > 0 and evs[start].get("ev") != "c_new":
        start -= 1
    return {"session": evs[start:i + 1]}


def split_by(evs, first):
    out, cur = [], []
    for ev in evs:
        if ev.get("ev") == first:
            if cur:
                out.append(cur)
            cur = [ev]
        elif cur:
            cur.append(ev)
    if cur:
        out.append(cur)
    return out


def corrupt_generic(prop, evs):
    """Returns a list of traces, each with exactly one corrupted field relevant to `prop`."""
    out = []
    if prop in ("C02", "C13", "C14", "C17"):
        for s in split_by(evs, "c_new"):
            s = copy.deepcopy(s)
            done = False
            for e in s:
                k = e["ev"]
                if prop == "C13" and k == "c_push" and e["res"] == "ok":
                    e["obs"]["last"]["pos"]["hm"] = (e["obs"]["last"]["pos"]["hm"] + 1) % 65536; done = True
                elif prop == "C02" and k == "c_push" and e["res"] == "err" and e["like"]["t"] in ("move", "uci"):
                    e["obs"]["revalid"] = False; e["obs"]["last"]["pos"]["fm"] = (e["obs"]["last"]["pos"]["fm"] % 65535) + 1; done = True
                elif prop == "C14" and k == "c_calc":
                    e["res"] = ["draw", "repeat5"] if e["res"] != ["draw", "repeat5"] else ["none"]; done = True
                elif prop == "C17" and k == "c_walk" and any(r["some"] for r in e["results"]):
                    r = [r for r in e["results"] if r["some"]][0]
                    r["m"] = [1, 2, 0, 1] if r["m"] != [1, 2, 0, 1] else [1, 2, 1, 0]; done = True
                if done:
                    break
            if done:
                out.append(s)
            if len(out) >= 6:
                break
    else:
        for e in evs:
            e = copy.deepcopy(e)
            k = e["ev"]
            if prop == "C08" and k == "fen":
                e["text"] = e["text"][:-1] + [e["text"][-1] ^ 1]
            elif prop == "C09" and k == "san" and e["moves"]:
                e["moves"][0]["san"] = e["moves"][0]["san"] + [43]
            elif prop == "C10" and k == "uci" and e["semi"]:
                e["semi"] = e["semi"][1:]
            elif prop == "C12" and k == "parse":
                e["res"] = "panic"
            elif prop == "C11" and k == "rawval":
                e["res"]["ok"] = not e["res"]["ok"]
                if not e["res"]["ok"]:
                    e["res"]["err"] = ["NoKing", 0]
            elif prop == "C15" and k == "magic":
                ent = e["entries"][0]
                ent[1] = ent[1][1:] if ent[1] else [0]
                e["entries"] = e["entries"][:4]
            elif prop == "C18" and k == "sym" and "b" in e and e["b"]["legal"]:
                e["b"]["legal"] = e["b"]["legal"][1:]
            elif prop == "C19" and k == "cap" and "panic" not in e:
                e["list_len"] = e["list_len"] + 1
            elif prop == "C20" and k == "bb_unary":
                e["rows"] = e["rows"][:3]
                e["rows"][0]["len"] += 1
            elif prop == "C20" and k == "t_values":
                e["coords"][5]["diag"] += 1
            else:
                continue
            out.append([e])
            if len(out) >= 8:
                break
    return out


def corruption_generic(run, prop, src_dir):
    shards = sorted(glob.glob(os.path.join(src_dir, "shard_*.ndjson")))
    traces = []
    for sh in shards:
        traces = corrupt_generic(prop, read_lines(sh))
        if traces:
            break
    if not traces:
        run.tool_error("corruption test: nothing corruptible")
        return
    d = fresh_dir(os.path.join(WORK, f"{prop}-corrupt"))
    path = os.path.join(d, "shard_0000.ndjson")
    bounds = []
    n = 0
    with open(path, "w") as f:
        for t in traces:
            bounds.append((n + 1, n + len(t)))
            for ev in t:
                f.write(json.dumps(ev) + "\n")
                n += 1
    r = validate_shard(prop, path)
    lines = {ln for ln, _ in r["nonconf"]}
    caught = sum(1 for a, b in bounds if any(a <= ln <= b for ln in lines))
    run.extra["corruption_test"] = {"corrupted_traces": len(traces), "rejected": caught}
    if r["error"] or caught < len(traces):
        run.tool_error(f"corruption test: only {caught} of {len(traces)} corrupted traces were rejected\n{(r['error'] or '')[-1500:]}")


# ---------------------------------------------------------------------------------------------
# the system specification (spec/Owlchess.tla): bounded models, reachability probes, behaviours -> code
# ---------------------------------------------------------------------------------------------
CHAIN_MODELS = {  # model: (in quick?, probes that must be reachable)
    "knights1": (True, ["rep3", "rep5", "rep3_after_pop", "auto_stored"]),
    "castle": (True, ["castled"]),
    "ep": (True, ["refused_push", "ep_capture"]),
    "clock": (True, ["moves50", "moves75"]),
    "knights2": (False, ["walker_lazy", "rep3"]),
}


CHAIN_MODELS_FOR = {"C13": ["ep"], "C14": ["knights1", "clock"], "C17": ["castle"]}


def mc_chain(run, tier):
    """Engine MC on the system spec: every interleaving of pushes (accepted and refused), pops, outcome
    operations and walker steps within the bound; invariants = the listed properties at design level.
    quick: two of the small models per property; thorough: all five."""
    models = [m for m, (q, _) in CHAIN_MODELS.items() if tier == "thorough" or m in CHAIN_MODELS_FOR.get(run.prop, [])]
    info = {}
    t0 = time.time()
    for m in models:
        r = run_tlc("MC_Chain", "MC_Chain.cfg", env={"MODEL": m}, workers=NCPU, xmx="12g", timeout=3000, tag=f"mcchain-{run.prop}-{m}", gc_threads=4)
        if "Model checking completed. No error has been found" not in r["out"]:
            run.tool_error(f"MC_Chain({m}): the implementation-shaped chain/walker does not refine the abstract one, "
                           f"or TLC failed:\n" + r["out"][-3000:])
            continue
        run.states += r["distinct"]
        run.transitions += r["generated"]
        info[m] = {"distinct_states": r["distinct"], "states_generated": r["generated"]}
    # anti-vacuity: the interesting situations are reachable inside the bounds
    jobs = [(m, p) for m in models for p in CHAIN_MODELS[m][1]]
    def probe(mp):
        m, p = mp
        r = run_tlc("MC_Chain", "MC_ChainProbe.cfg", env={"MODEL": m, "PROBE": p}, workers=2, xmx="3g", timeout=1500,
                    tag=f"probe-{run.prop}-{m}-{p}")
        return (m, p, "Invariant Probe is violated" in r["out"])
    with ThreadPoolExecutor(max_workers=8) as ex:
        for m, p, reached in ex.map(probe, jobs):
            info.setdefault(m, {}).setdefault("probes_reached", []).append(p) if reached else \
                run.tool_error(f"vacuous model: probe {p} is not reachable in MC_Chain({m})")
    run.extra["mc_chain"] = {"models": info, "invariants": ["Inv_C13_Refines", "Inv_C13_Replay", "Inv_C02_Valid", "Inv_C14_Outcome",
                             "Inv_C14_Count", "Inv_C17_Walker"], "action_properties": ["Act_RefusedPushChangesNothing",
                             "Act_PopUndoesPush", "Act_WalkerLeavesChain", "Act_WalkerReturns"], "wall_s": round(time.time() - t0, 1)}
    log(f"[mc] MC_Chain {list(info)} in {time.time() - t0:.1f}s")


def cps(s):
    return [ord(c) for c in s]


def behaviour_to_script(b, idx):
    ops, walk, last = [], None, None
    for j, st in enumerate(b["steps"]):
        a = st["act"]
        k = a[0]
        expect = {"pos": st["pos"], "len": st["len"]}
        last = expect
        if k == "push":
            m = a[2]
            if m[0] != 0 and (idx + j) % 3 == 1:
                like = {"t": "uci", "text": cps(chessfmt.move_str(m))}
            elif m[0] != 0 and (idx + j) % 3 == 2:
                like = {"t": "ucimove", "text": cps(chessfmt.move_str(m))}
            else:
                like = {"t": "move", "m": m}
            ops.append({"op": "push", "like": like, "expect": dict(expect, res=a[1])})
        elif k == "pushlist":
            toks = [chessfmt.move_str(m) if m[0] != 0 else "zz99" for m in a[3]]
            sep = [" ", "  ", "\t", "\n"][(idx + j) % 4]
            ops.append({"op": "pushlist", "text": cps(sep.join(toks)), "expect": dict(expect, res=a[1])})
        elif k == "reset_outcome":
            ops.append({"op": "reset_outcome", "o": a[1], "expect": expect})
        elif k == "pop":
            ops.append({"op": "pop", "expect": dict(expect, res=a[1])})
        elif k == "set_outcome":
            ops.append({"op": "set_outcome", "o": a[1], "expect": expect})
        elif k == "clear_outcome":
            ops.append({"op": "clear_outcome", "expect": expect})
        elif k == "set_auto":
            ops.append({"op": "set_auto", "filter": a[1], "expect": expect})
            ops.append({"op": "calc", "expect": expect})
        elif k == "walk":
            walk = {"op": "walk", "steps": []}
        elif k in ("wnext", "wprev", "wstart", "wend") and walk is not None:
            walk["steps"].append(k[1:])
        elif k == "drop" and walk is not None:
            walk["expect"] = expect
            ops.append(walk)
            walk = None
    if walk is not None:
        walk["expect"] = last
        ops.append(walk)
    ops.append({"op": "eq"})
    ops.append({"op": "text", "variants": [{"nums": "board", "style": "san", "status": True},
                                           {"nums": "omit", "style": "uci", "status": False},
                                           {"nums": "custom", "custom": 7, "style": "sanutf8", "status": True}]})
    return {"start": b["start"], "ops": ops}


def chain_behaviours(run, prop, tier, seed, binary):
    """Engine S2I: behaviours generated by TLC from the system specification (simulation mode), stepped
    through the real MoveChain / Walker; the abstract state is compared after every action and the
    recorded execution is validated against the specification."""
    plan = [("free", 40, 14), ("knights1", 36, 4), ("castle", 14, 4), ("ep", 8, 6), ("clock", 10, 4)]
    if tier == "thorough":
        plan = [(m, d, n * 12) for m, d, n in plan]
    elif prop != "C13":
        plan = [("free", 40, 5), ("knights1", 36, 2), ("clock", 10, 2)]
    t0 = time.time()
    def sim(args):
        m, depth, num = args
        env = {"MODEL": m, "SIMDEPTH": depth}
        if m != "free":
            env["MAXLEN"] = depth
        r = run_tlc("MC_ChainSim", "MC_ChainSim.cfg", env=env, workers=1, xmx="3g", timeout=3000,
                    tag=f"sim-{prop}-{m}", simulate=f"num={num}", extra=["-depth", str(depth), "-seed", str(seed)])
        out = []
        for ln in r["out"].splitlines():
            if ln.startswith('"BEHAVIOUR '):
                try:
                    out.append(json.loads(json.loads(ln)[len("BEHAVIOUR "):]))
                except Exception:
                    pass
        if not out:
            run.tool_error(f"MC_ChainSim({m}) produced no behaviour:\n" + r["out"][-1500:])
        return out
    with ThreadPoolExecutor(max_workers=len(plan)) as ex:
        lists = list(ex.map(sim, plan))
    seen, scripts = set(), []
    for l in lists:
        for b in l:
            key = json.dumps([s["act"] for s in b["steps"]]) + json.dumps(b["start"])
            if key not in seen:
                seen.add(key)
                scripts.append(behaviour_to_script(b, len(scripts)))
    d = fresh_dir(os.path.join(WORK, f"{prop}-{tier}-s2i"))
    sf = os.path.join(d, "scripts.ndjson")
    with open(sf, "w") as f:
        for sc in scripts:
            f.write(json.dumps(sc) + "\n")
    rc, txt_ = run_harness(binary, ["exec-scripts", sf, d, 300 if tier == "quick" else 1500])
    log(f"[s2i] {len(scripts)} TLC behaviours -> {txt_.strip().splitlines()[-1] if txt_.strip() else ''} in {time.time() - t0:.1f}s")
    if not harness_outcome(run, rc, txt_, d, engine="s2i"):
        return
    res = validate_dir(prop, d)
    run.vectors += len(scripts)
    run.extra["s2i_behaviours"] = {"behaviours": len(scripts), "models": {m: len(l) for (m, _, _), l in zip(plan, lists)}}
    run.add_trace_results(res, ident_generic(prop), Classifier(prop), chain_payload)


GENERIC = {
    # prop: (quick n, thorough n, quick shard cap, thorough cap)
    "C02": (160, 10000, 300, 1500),
    "C13": (160, 4000, 300, 1500),
    "C14": (120, 3000, 300, 1500),
    "C17": (160, 4000, 300, 1500),
    "C08": (700, 60000, 800, 4000),
    "C09": (500, 30000, 40, 300),
    "C10": (900, 50000, 70, 500),
    "C12": (60, 600, 4000, 20000),
    "C11": (6000, 400000, 500, 4000),
    "C15": (64, 64, 40, 40),
    "C18": (2500, 120000, 250, 2000),
    "C19": (1500, 60000, 400, 3000),
    "C20": (1, 1, 4, 4),
}
LEVELS = {"C19": "exploration"}
RULES.update({
    "C11": "raw boards: the valid positions of the stream + 14 kinds of mutation of valid positions (king removed/added, pawn on 1st/8th rank, e.p. mark anywhere / on the right rank with or without its pawn structure, rights toggled with home squares disturbed, 16/17 men, side flipped, man dropped) + arbitrary random boards + every e.p. mark on every square for both sides and all 16 rights sets on two skeletons; non-trivial = rejected, or accepted with normalisation changing something",
    "C15": "for the enumerated squares every subset of the relevant-occupancy mask (4096 max for rooks, 512 for bishops), each also with random blockers OUTSIDE the mask, plus random and full/empty occupancies (both tiers: all 64 squares complete = every relevant occupancy of every square; thorough: five noisy variants of each instead of one); king/knight/pawn tables for 64 squares x 2 colours; strictly-between sets and alignment predicates for all 64x64 pairs; every event is non-trivial, distinct by (piece, square, chunk)",
    "C18": "for every position of the stream the colour-mirrored position is built through the public API and both bundles (legal moves, check, has_legal, outcome) are logged; same for the left-right flop when there are no castling rights; non-trivial = position with check, e.p., castling rights, or a flop",
    "C19": "capacity: |PseudoLegal| by the spec = length of the safe Vec sink = length of the fixed-capacity MoveList <= 256, on the position stream, on hill-climbing maximisers of the semilegal move count (all-queen armies) and their neighbours; SAN pawn moves/captures to every square incl. the mover's own back rank; in a build with debug assertions, overflow and unsafe-precondition checks AND in an optimised build; non-trivial = position with >= 60 semilegal moves or a boundary text",
    "C20": "every value of every finite type (8 files, 8 ranks, 64 squares, 6 pieces, 13 cells, 2 colours, 16 rights sets) through index/char/text conversions; from_index(i) for i < 300; from_char for all characters < U+0300 and samples up to U+10FFFF; every 1- and 2-character string over printable ASCII + 4 multi-byte characters through the four FromStr; bitboard algebra on all pairs of subsets of a 6-square universe, unary operations on all subsets of a 12-square universe + random 64-bit sets, bit deposit incl. EMPTY and FULL masks; shift for all squares x 41x41 offsets (+-20) and 68 larger offsets up to the extremes of isize, add for offsets -70..70; Move/MoveKind/RawBoard value-level API (notes only); every named constant; each event is one distinct block",
    "C02": "random chain sessions (push of Move / uci::Move / Uci(&str) / san::Move / San(&str): every kind of legal move, pseudo-legal-illegal moves, well-formed non-semilegal moves, the null move, mutated and garbage text; pops, outcome operations); after EVERY call the whole chain observation incl. re-validation of the current board is logged; non-trivial = each distinct (position, move-like value) pushed",
    "C13": "same sessions; non-trivial = refused pushes, pushes of special-kind moves, pops, equality comparisons (rebuilt chain + 6 perturbed variants); distinct by (session start, op index)",
    "C14": "shuffle-biased sessions (moves that undo the previous own move) from small endgames and castling/e.p. starts with clocks near 100/150; calc_outcome and set_auto_outcome under all three filters, a spy Repeat wrapping HashRepeat records count(); non-trivial = outcome not none or repetition count >= 2",
    "C17": "walk-biased sessions: random next/prev/start/end step sequences (returned board in full projection), UCI list text + from_uci_list round trip, styled(...) for all 3 number policies x 3 styles x 2 status policies incl. Black-to-move starts and custom numbers; non-trivial = walker/printing of a chain with >= 1 move",
    "C08": "FEN of every position of the stream (board), of boards reached from them by special moves and by the NULL move + unvalidated random raw boards with rank-consistent e.p. mark (0-64 men, any number of kings) + all 2^8 run-length patterns of one rank + accepted non-canonical and mutated texts; distinct by text",
    "C09": "per position: SAN of every legal move in both styles + ~100-300 texts (hints added/removed/wrong, capture mark toggled, promotion changed, every short pawn-capture form, UCI spellings, check suffixes, garbage); non-trivial = position where some SAN is longer than 3 characters",
    "C10": "per position all 20 480 strings [a-h][1-8][a-h][1-8][nbrq]? + '0000' through from_uci, from_uci_semilegal, from_uci_legal, Uci(s).make, uci::Move::make; non-trivial = position with a special-kind pseudo-legal move",
    "C12": "every string of length <= 2 (quick: + 1/12 of length 3; thorough: all of length <= 3) over a 25-symbol alphabet incl. 2-, 3- and 4-byte characters, NUL and space; grammar-directed mutations of valid texts; long strings; random Unicode; UCI lists with ASCII and non-ASCII whitespace; each through 12 parsing entry points; non-trivial = multi-byte, short or accepted text",
})


def plan_generic(prop, tier, seed):
    run = Run(prop, tier, seed, LEVELS.get(prop, "model_checking"))
    run.rule = RULES[prop]
    run.assumptions = [
        "the TLA+ specification (Rules, Notation, Chain) is the oracle; Rules is pinned to published perft counts by SelfTest",
        "bounded: the listed sessions / texts, not all histories or strings",
        "the harness projection reports the library's values faithfully; a panic is caught and logged as data, an abort is reported through the write-ahead file",
    ]
    try:
        binary = build_harness("checked")
    except ToolError as e:
        run.tool_error(str(e))
        return run.finish()
    qi = 0 if tier == "quick" else 1
    n, cap = GENERIC[prop][qi], GENERIC[prop][2 + qi]
    out = fresh_dir(os.path.join(WORK, f"{prop}-{tier}"))
    t0 = time.time()
    env = {"HARNESS_DEEP": "1"} if (tier == "thorough" and prop in ("C12", "C15")) else None
    rc, txt_ = run_harness(binary, ["gen", prop, n, seed, out, cap], env=env)
    log(f"[gen] {txt_.strip().splitlines()[-1] if txt_.strip() else ''} rc={rc} in {time.time() - t0:.1f}s")
    if not harness_outcome(run, rc, txt_, out):
        return run.finish()
    res = validate_dir(prop, out)
    run.add_trace_results(res, ident_generic(prop), Classifier(prop), chain_payload)
    m = re.search(r"CLIMB best_semilegal=(\d+)", txt_)
    if m:
        run.extra["max_semilegal_moves_found_by_search"] = int(m.group(1))
    corruption_generic(run, prop, out)
    if prop in FAMS_FOR:
        families(run, prop, tier, seed, binary, ident_generic(prop), Classifier(prop), chain_payload,
                 cap=GENERIC[prop][2 + qi])
    if prop in ("C08", "C09", "C10"):
        mc_notation(run, tier)
        if prop == "C09":
            # the SAN writer/reader as the code does it (SanImpl) against the reference reading, on the families
            mc_famimpl(run, tier, seed, ["AMBIG", "PIN", "EPX", "PROMO", "CASTLE", "DBLCHK"], module="MC_SanImpl",
                       mult=(20, 5), rel=True, what="Inv_SanRefines (Obl_SanWrite, Obl_SanRoundTrip, Obl_SanRead)",
                       corpus=(1, 16) if tier == "quick" else (1, 122))
        if prop == "C10":
            # the UCI readers as the code does them (kind guessed from the board, Move::new, validators) on all
            # 20 480 (source, destination, promotion) triples of each position
            mc_famimpl(run, tier, seed, ["EPX", "EPEVADE", "PROMO", "CASTLE", "PIN"], module="MC_SanImpl", cfg="MC_UciImpl.cfg",
                       mult=(30, 5), rel=True, what="Inv_UciRefines (Obl_Uci)", corpus=(20, 32) if tier == "quick" else (1, 122))
    if prop == "C11":
        # the validator as the code does it (ImplTryFrom: normalisations first, tests in code order) against
        # Conditions / Normalise, on the disturbed raw boards of the RAW family (stride 1 = all of them)
        mc_famimpl(run, tier, seed, ["RAW"], mult=(1, 1), what="Inv_FamRefines on RAW (Obl_TryFrom)")
    if prop in ("C13", "C14", "C17"):
        chain_behaviours(run, prop, tier, seed, binary)
        mc_chain(run, tier)
    if prop == "C19":
        # the same inputs through an OPTIMISED build (no debug assertions, wrapping arithmetic)
        try:
            rel = build_harness("release")
            out2 = fresh_dir(os.path.join(WORK, f"{prop}-{tier}-release"))
            rc2, txt2 = run_harness(rel, ["gen", prop, n, seed + 1, out2, cap])
            log(f"[gen] release build: {txt2.strip().splitlines()[-1] if txt2.strip() else ''} rc={rc2}")
            if harness_outcome(run, rc2, txt2, out2):
                run.add_trace_results(validate_dir(prop, out2), ident_generic(prop), Classifier(prop), chain_payload)
                run.extra["builds"] = ["checked (debug assertions + overflow checks + unsafe-precondition checks)", "release"]
        except ToolError as e:
            run.tool_error(str(e))
    if len(run.nontrivial) < 2:
        run.tool_error("vacuous coverage: fewer than 2 non-trivial cases")
    return run.finish()


# ---------------------------------------------------------------------------------------------
# replay of a recorded violation against the current code
# ---------------------------------------------------------------------------------------------
def replay(prop, path):
    try:
        rep = json.load(open(path))
    except Exception as e:
        log("cannot read replay file:", e)
        return 2
    try:
        binary = build_harness("checked")
    except ToolError as e:
        log(e)
        return 2
    d = fresh_dir(os.path.join(WORK, f"{prop}-replay"))
    inp = os.path.join(d, "input.json")
    json.dump(rep, open(inp, "w"))
    rc, txt = run_harness(binary, ["regen", prop, inp, d])
    if rc != 0:
        log("the library aborted or the harness failed while re-executing the input:\n" + txt[-2000:])
        print(f"VIOLATION property={prop} replay={path}")
        return 1
    res = validate_dir(prop, d, jobs=1)
    bad = False
    for r in res:
        if r["error"]:
            log(r["error"]); return 2
        if r["nonconf"] or not r["accepted"]:
            bad = True
            log("still failing:", r["nonconf"], "accepted=", r["accepted"])
    if bad:
        print(f"VIOLATION property={prop} replay={path}")
        return 1
    log("replay: the current code conforms on this input")
    return 0


PLANS = {p: plan_queries for p in ("C01", "C03", "C06", "C07", "C16")}
PLANS.update({"C04": plan_sessions, "C05": plan_sessions})
PLANS.update({p: plan_generic for p in GENERIC})


def run(prop, tier, seed):
    return PLANS[prop](prop, tier, seed)
