"""Shared machinery for ./check: building the harness, running TLC, validating traces, evidence."""
import json, os, sys, subprocess, time, shutil, glob, re
from concurrent.futures import ThreadPoolExecutor

ROOT = os.path.dirname(os.path.dirname(os.path.abspath(__file__)))
# The registered checks always use /repo, /verif/work and /verif/evidence.  The three overrides below exist
# only so that tools/mutest.py can run checks against a scratch worktree carrying a seeded change, in
# parallel, without touching /repo or the committed evidence.
REPO = os.environ.get("VERIF_REPO", "/repo")
WORK = os.environ.get("VERIF_WORK", os.path.join(ROOT, "work"))
SPEC = os.path.join(ROOT, "spec")
HARNESS = os.path.join(ROOT, "harness")
EVID = os.environ.get("VERIF_EVID", os.path.join(ROOT, "evidence"))
REPLAY_DIR = os.path.join(WORK, "replay")
TLA_CP = "/opt/veriftools/tla/tla2tools.jar:/opt/veriftools/tla/CommunityModules-deps.jar"
NCPU = os.cpu_count() or 4
JOBS = int(os.environ.get("VERIF_JOBS", max(2, min(14, NCPU - 2))))   # parallel single-worker TLC JVMs

sys.path.insert(0, os.path.join(ROOT, "lib"))
import chessfmt  # noqa


class ToolError(Exception):
    pass


def log(*a):
    print(*a, flush=True)


def fresh_dir(path):
    shutil.rmtree(path, ignore_errors=True)
    os.makedirs(path, exist_ok=True)
    return path


# ---------------------------------------------------------------------------------------------
# harness
# ---------------------------------------------------------------------------------------------
def build_harness(profile="checked"):
    """Always rebuild from /repo's current working tree (path dependency) with hooks enabled."""
    env = dict(os.environ, CARGO_NET_OFFLINE="true")
    t0 = time.time()
    cmd = ["cargo", "build", "--offline", "--profile", profile]
    target = os.path.join(HARNESS, "target")
    if REPO != "/repo":
        cmd += ["--config", f'paths=["{REPO}/chess","{REPO}/chess_base"]']
        target = os.path.join(WORK, "harness-target")
        env["CARGO_TARGET_DIR"] = target
    p = subprocess.run(cmd, cwd=HARNESS, env=env, capture_output=True, text=True, stdin=subprocess.DEVNULL)
    if p.returncode != 0:
        log(p.stdout[-3000:]); log(p.stderr[-6000:])
        raise ToolError(f"cargo build of the harness failed (profile {profile})")
    log(f"[build] harness ({profile}) against {REPO} in {time.time() - t0:.1f}s")
    return os.path.join(target, profile, "harness")


def run_harness(binary, args, timeout=3600, env=None):
    """Runs the harness.  Returns (rc, stdout).  A death by signal (abort from a non-unwinding panic)
    is reported to the caller through rc < 0 / rc >= 128."""
    e = dict(os.environ)
    if env:
        e.update(env)
    p = subprocess.run([binary] + [str(a) for a in args], capture_output=True, text=True, timeout=timeout, env=e, stdin=subprocess.DEVNULL)
    return p.returncode, p.stdout + p.stderr


def sanitize_shards(d):
    """After an abort of the harness the last shard may end in a partial line: drop it."""
    for sh in glob.glob(os.path.join(d, "shard_*.ndjson")):
        with open(sh) as f:
            lines = f.read().split("\n")
        good = []
        for ln in lines:
            if not ln.strip():
                continue
            try:
                json.loads(ln)
                good.append(ln)
            except Exception:
                break
        with open(sh, "w") as f:
            f.write("".join(x + "\n" for x in good))


def harness_outcome(run, rc, txt, out, engine="i2s"):
    """Common handling of the harness exit status.  Returns False if nothing can be validated."""
    if rc == 0:
        return True
    sanitize_shards(out)
    wal = os.path.join(out, "wal.json")
    if os.path.exists(wal):
        try:
            w = json.load(open(wal))
        except Exception:
            w = {"unreadable_wal": True}
        run.violation("crash:" + json.dumps(w, sort_keys=True), {"engine": engine, "crash": w, "output": txt[-2000:]},
                      "the library aborted the process (non-unwinding panic / signal) on this input")
        return True
    run.tool_error("harness failed:\n" + txt[-3000:])
    return False


# ---------------------------------------------------------------------------------------------
# TLC
# ---------------------------------------------------------------------------------------------
_STATS_RE = re.compile(r"(\d+) states generated, (\d+) distinct states found")


def run_tlc(module, cfg, env=None, workers=1, xmx="1500m", timeout=1800, extra=None, tag=None, xss="512m",
            gc_threads=2, simulate=None):
    tag = tag or f"{module}-{os.getpid()}-{time.time_ns()}"
    meta = os.path.join(WORK, "tlc", tag)
    shutil.rmtree(meta, ignore_errors=True)
    os.makedirs(meta, exist_ok=True)
    cmd = ["java", "-XX:+UseParallelGC", f"-XX:ParallelGCThreads={gc_threads}", f"-Xmx{xmx}", f"-Xss{xss}",
           f"-Djava.io.tmpdir={meta}", "-cp", TLA_CP, "tlc2.TLC", "-workers", str(workers), "-metadir", meta, "-cleanup",
           "-noGenerateSpecTE", "-config", cfg]
    if simulate:
        cmd += ["-simulate", simulate]
    if extra:
        cmd += extra
    cmd.append(module + ".tla")
    e = dict(os.environ)
    e.pop("JAVA_TOOL_OPTIONS", None)
    if env:
        e.update({k: str(v) for k, v in env.items()})
    t0 = time.time()
    try:
        p = subprocess.run(cmd, cwd=SPEC, env=e, capture_output=True, text=True, timeout=timeout, stdin=subprocess.DEVNULL)
        out, rc = p.stdout + p.stderr, p.returncode
    except subprocess.TimeoutExpired as ex:
        out = (ex.stdout or b"").decode(errors="replace") if isinstance(ex.stdout, bytes) else (ex.stdout or "")
        rc = -9
        out += "\nTLC-TIMEOUT"
    shutil.rmtree(meta, ignore_errors=True)
    gen = dist = 0
    for m in _STATS_RE.finditer(out):
        gen, dist = int(m.group(1)), int(m.group(2))
    return {"rc": rc, "out": out, "generated": gen, "distinct": dist, "wall": time.time() - t0}


_NONCONF_RE = re.compile(r'^"NONCONF (\d+) (\{.*\})"\s*$', re.M)
_TAG_RE = re.compile(r'"([^"]*)"')


def validate_shard(prop, path, timeout=1800, xmx="1500m"):
    """Trace validation of one ndjson shard against Trace.tla under PROP=prop."""
    tag = "trace-" + prop + "-" + os.path.basename(os.path.dirname(path)) + "-" + os.path.basename(path)
    r = run_tlc("Trace", "Trace.cfg", env={"TRACE": path, "PROP": prop}, timeout=timeout, tag=tag, xmx=xmx)
    out = r["out"]
    res = {"path": path, "accepted": False, "nonconf": [], "states": r["distinct"], "generated": r["generated"],
           "wall": r["wall"], "error": None, "classes": {}}
    m = re.search(r'"TRACE-ACCEPTED (\d+)"', out)
    if m:
        res["accepted"] = True
        res["events"] = int(m.group(1))
    for m in _NONCONF_RE.finditer(out):
        res["nonconf"].append((int(m.group(1)), sorted(_TAG_RE.findall(m.group(2).replace('\\"', '"')))))
    n_lines = len(res["nonconf"])
    # tags prefixed x_ are checks BEYOND the listed properties (spec growth): a difference there is a note
    # (recorded in the evidence), never a violation
    res["notes"] = {}
    core = []
    for ln, tags in res["nonconf"]:
        for t in tags:
            if t.startswith("x_"):
                res["notes"][t] = res["notes"].get(t, 0) + 1
        keep = [t for t in tags if not t.startswith("x_")]
        if keep:
            core.append((ln, keep))
    res["nonconf"] = core
    if out.count("NONCONF") != n_lines:
        res["error"] = "could not parse every NONCONF line of TLC's output:\n" + out[-3000:]
    for m in re.finditer(r'^<<"CLASS", "([^"]+)", (\d+)>>\s*$', out, re.M):
        res["classes"][m.group(1)] = res["classes"].get(m.group(1), 0) + int(m.group(2))
    if not res["accepted"]:
        m = re.search(r'"TRACE-REJECTED consumed (\d+) of (\d+)"', out)
        if m:
            res["rejected_at"] = int(m.group(1)) + 1
        elif not res["error"]:
            res["error"] = out[-4000:]
    return res


def validate_dir(prop, d, jobs=JOBS, timeout=1800):
    shards = sorted(glob.glob(os.path.join(d, "shard_*.ndjson")))
    shards = [s for s in shards if os.path.getsize(s) > 0]
    t0 = time.time()
    with ThreadPoolExecutor(max_workers=jobs) as ex:
        res = list(ex.map(lambda s: validate_shard(prop, s, timeout=timeout), shards))
    log(f"[tlc] validated {len(shards)} shard(s) for {prop} in {time.time() - t0:.1f}s")
    return res


def read_line(path, n):
    with open(path) as f:
        for i, line in enumerate(f, 1):
            if i == n:
                return json.loads(line)
    return None


def read_lines(path):
    with open(path) as f:
        return [json.loads(x) for x in f if x.strip()]


# ---------------------------------------------------------------------------------------------
# known findings
# ---------------------------------------------------------------------------------------------
def load_known():
    p = os.path.join(ROOT, "known_findings.json")
    if not os.path.exists(p):
        return {"known": [], "fixed": []}
    return json.load(open(p))


def match_known(prop, ident):
    """A known finding suppresses exactly one identified input (property + identity string)."""
    for k in load_known().get("known", []):
        if k.get("property") == prop and k.get("match") == ident:
            return k
    return None


# ---------------------------------------------------------------------------------------------
# a run of one check
# ---------------------------------------------------------------------------------------------
class Run:
    def __init__(self, prop, tier, seed, level):
        self.prop, self.tier, self.seed, self.level = prop, tier, seed, level
        self.t0 = time.time()
        self.states = 0
        self.transitions = 0
        self.traces = 0
        self.events = 0
        self.evaluations = 0
        self.vectors = 0
        self.samples = []
        self.violations = []      # (ident, replay path, text)
        self.known = []
        self.notes = {}           # beyond-property differences (tag -> count)
        self.tool_errors = []
        self.extra = {}
        self.nontrivial = set()
        self.rule = ""
        self.assumptions = []
        self.exhaustive = False
        os.makedirs(REPLAY_DIR, exist_ok=True)
        self._nrep = 0

    def tool_error(self, msg):
        log("TOOL-ERROR:", msg)
        self.tool_errors.append(msg)

    def violation(self, ident, payload, text):
        """Registers a violation unless the identified input is a listed known finding."""
        k = match_known(self.prop, ident)
        if k:
            if ident not in [x[0] for x in self.known]:
                self.known.append((ident, k.get("what", "")))
            return
        if ident in [v[0] for v in self.violations]:
            return
        self._nrep += 1
        path = os.path.join(REPLAY_DIR, f"{self.prop}-{self._nrep}.json")
        payload = dict(payload, property=self.prop, ident=ident, what=text)
        with open(path, "w") as f:
            json.dump(payload, f)
        self.violations.append((ident, path, text))

    def add_trace_results(self, results, ident_fn, classify_fn=None, payload_fn=None):
        """Folds the per-shard validation results into the run; every NONCONF becomes a violation."""
        for r in results:
            if r["error"]:
                self.tool_error(f"TLC failed on {r['path']}:\n{r['error']}")
                continue
            self.states += r["states"]
            self.transitions += max(r["generated"] - 1, 0)
            evs = read_lines(r["path"])
            if r["accepted"]:
                self.traces += 1
            self.events += len(evs)
            for k, v in r["classes"].items():
                self.extra.setdefault("classes", {})
                self.extra["classes"][k] = self.extra["classes"].get(k, 0) + v
            if classify_fn:
                for ev in evs:
                    key = classify_fn(ev)
                    if key is not None:
                        self.nontrivial.add(key)
            if not self.samples and evs:
                self.samples.append(sample_of(evs[min(len(evs) - 1, 7)]))
            for t, n in r.get("notes", {}).items():
                self.notes[t] = self.notes.get(t, 0) + n
            for (line, failed) in r["nonconf"]:
                ev = evs[line - 1]
                ident = ident_fn(ev, failed)
                payload = {"engine": "i2s", "event": ev, "failed": failed, "shard": r["path"], "line": line}
                if payload_fn:
                    payload.update(payload_fn(evs, line))
                self.violation(ident, payload, f"event line {line} fails {failed}")
            if not r["accepted"]:
                at = r.get("rejected_at")
                ev = evs[at - 1] if at and at <= len(evs) else None
                ident = "rejected:" + (ident_fn(ev, ["rejected"]) if ev else os.path.basename(r["path"]))
                payload = {"engine": "i2s", "event": ev, "failed": ["no spec action explains this event"],
                           "shard": r["path"], "line": at}
                if payload_fn and at:
                    payload.update(payload_fn(evs, at))
                self.violation(ident, payload, f"trace rejected at line {at}")

    def finish(self):
        wall = time.time() - self.t0
        cov = {
            "states": self.states,
            "transitions": self.transitions,
            "traces_validated_against_impl": self.traces,
            "samples": self.samples[:5] or ["(none)"],
            "evaluations": self.evaluations or self.events + self.vectors,
            "distinct_nontrivial": len(self.nontrivial),
            "rule": self.rule,
            "events_validated": self.events,
            "vectors_replayed": self.vectors,
            "exhaustive": self.exhaustive,
        }
        cov.update(self.extra)
        if self.notes:
            cov["beyond_property_notes"] = self.notes
            for t, n in sorted(self.notes.items()):
                print(f"NOTE: property={self.prop} the code differs from the specification in {n} event(s) on '{t[2:]}', "
                      f"which no listed property constrains (not a violation)")
        ev = {
            "property_id": self.prop, "tier": self.tier, "seed": self.seed, "level": self.level,
            "coverage": cov, "assumptions": self.assumptions, "wall_s": round(wall, 2),
            "violations": len(self.violations),
            "known_findings": [k[0] for k in self.known],
            "tool_errors": self.tool_errors,
        }
        os.makedirs(EVID, exist_ok=True)
        with open(os.path.join(EVID, f"{self.prop}.json"), "w") as f:
            json.dump(ev, f, indent=1)
        for ident, what in self.known:
            print(f"KNOWN-FINDING: property={self.prop} {ident} {what}")
        for ident, path, text in self.violations[:10]:
            print(f"VIOLATION property={self.prop} replay={path}")
            print(f"  ({ident}: {text})")
        if len(self.violations) > 10:
            print(f"  ... and {len(self.violations) - 10} more violations (replay files {REPLAY_DIR}/{self.prop}-*.json)")
        log(f"[{self.prop}] tier={self.tier} seed={self.seed} states={self.states} transitions={self.transitions} "
            f"traces={self.traces} events={self.events} vectors={self.vectors} "
            f"nontrivial={len(self.nontrivial)} violations={len(self.violations)} wall={wall:.1f}s")
        if self.violations:
            return 1
        if self.tool_errors:
            return 2
        return 0


def sample_of(ev):
    """A compact, human-readable rendering of one event for the evidence file."""
    s = {}
    for k, v in ev.items():
        if k == "pos" and isinstance(v, dict) and "cells" in v:
            try:
                s["fen"] = chessfmt.pos_to_fen(v)
            except Exception:
                s["pos"] = v
        elif isinstance(v, (list, dict)) and len(json.dumps(v)) > 200:
            s[k] = json.dumps(v)[:200] + "..."
        else:
            s[k] = v
    return s


def fen_of(ev):
    try:
        return chessfmt.pos_to_fen(ev["pos"])
    except Exception:
        return json.dumps(ev.get("pos"))[:200]
