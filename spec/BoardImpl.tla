----------------------------- MODULE BoardImpl -----------------------------
(***************************************************************************)
(* IMPLEMENTATION-SHAPED LAYER: what the code does, one operator per       *)
(* critical section of chess/src/moves/base.rs, chess/src/legal.rs and     *)
(* chess/src/movegen.rs, with the same intermediate state.                 *)
(*                                                                         *)
(* A model board is [r, hash, white, black, all, pieces]:                  *)
(*   r       the raw position (as in Rules)                                *)
(*   hash    a SET OF ABSTRACT ZOBRIST KEYS; every `^=` of the code is a   *)
(*           symmetric difference.  This is the free GF(2) vector space    *)
(*           over the key names, so "incremental hash = from-scratch hash" *)
(*           in the model is the algebraic content of property C05, free   *)
(*           of the particular random numbers.                             *)
(*   white, black, all   sets of squares;  pieces : 0..12 -> set of squares*)
(***************************************************************************)
EXTENDS Rules

Xor(X, Y) == (X \ Y) \cup (Y \ X)

\* abstract Zobrist keys
KeyPiece(cell, sq) == IF cell = 0 THEN {} ELSE {<<"pc", cell, sq>>}   \* PIECES[0][*] = 0 in build.rs
KeySide == {<<"side", 0, 0>>}                                                   \* MOVE_SIDE, present iff White to move
KeyEp(sq) == {<<"ep", sq, 0>>}
KeyCastling(cr) == {<<"cr", i, 0>> : i \in {i \in 0..3 : (cr \div Pow2(i)) % 2 = 1}}   \* XOR-linear table (build.rs)
\* castling_delta: XOR of the four piece keys of king and rook (build.rs)
KeyCastleDelta(color, side) ==
  LET r == HomeRank(color)  k == MkCell(color, K)  rk == MkCell(color, R) IN
  IF side = SideK
  THEN Xor(Xor(KeyPiece(k, MkSq(4, r)), KeyPiece(k, MkSq(6, r))), Xor(KeyPiece(rk, MkSq(7, r)), KeyPiece(rk, MkSq(5, r))))
  ELSE Xor(Xor(KeyPiece(k, MkSq(4, r)), KeyPiece(k, MkSq(2, r))), Xor(KeyPiece(rk, MkSq(0, r)), KeyPiece(rk, MkSq(3, r))))

\* RawBoard::zobrist_hash
ScratchHash(pos) ==
  Xor(Xor(Xor(IF pos.side = White THEN KeySide ELSE {},
              IF pos.ep # -1 THEN KeyEp(pos.ep) ELSE {}),
          KeyCastling(pos.castling)),
      UNION {KeyPiece(pos.cells[s], s) : s \in Sq})

\* derived state computed from the squares (Board::try_from)
Scratch(pos) ==
  [r |-> pos,
   hash |-> ScratchHash(pos),
   white |-> MenOf(pos.cells, White),
   black |-> MenOf(pos.cells, Black),
   all |-> Occ(pos.cells),
   pieces |-> [c \in 0..12 |-> IF c = 0 THEN {} ELSE {s \in Sq : pos.cells[s] = c}]]

Consistent(b) == b = Scratch(b.r)

ColorSet(b, color) == IF color = White THEN b.white ELSE b.black
WithColorSet(b, color, S) == IF color = White THEN [b EXCEPT !.white = S] ELSE [b EXCEPT !.black = S]
PutCell(b, sq, cell) == [b EXCEPT !.r.cells[sq] = cell]

\* castling::srcs and ALL_SRCS
CastleSrcs(color, side) == {KingHome(color), RookHome(color, side)}
AllCastleSrcs == UNION {CastleSrcs(c, s) : c \in {0, 1}, s \in {0, 1}}

\* fn update_castling(b, change)
UpdateCastling(b, change) ==
  IF change \cap AllCastleSrcs = {} THEN b
  ELSE LET keep == {cs \in RightsSet(b.r.castling) : change \cap CastleSrcs(cs[1], cs[2]) = {}}
           cr2 == RightsOfSet(keep)
       IN IF cr2 # b.r.castling
          THEN [b EXCEPT !.hash = Xor(Xor(b.hash, KeyCastling(b.r.castling)), KeyCastling(cr2)),
                         !.r.castling = cr2]
          ELSE b

\* fn do_make_pawn_double(b, mv, change, inv)
MakePawnDouble(b, m, color, inv) ==
  LET pawn == MkCell(color, P)  s == m[3]  d == m[4]  change == {s, d}
      b1 == IF inv THEN PutCell(PutCell(b, s, pawn), d, 0)
            ELSE [PutCell(PutCell(b, s, 0), d, pawn)
                    EXCEPT !.hash = Xor(b.hash, Xor(KeyPiece(pawn, s), KeyPiece(pawn, d)))]
      b2 == WithColorSet(b1, color, Xor(ColorSet(b1, color), change))
      b3 == [b2 EXCEPT !.pieces[pawn] = Xor(b2.pieces[pawn], change)]
  IN IF inv THEN b3 ELSE [b3 EXCEPT !.r.ep = d, !.hash = Xor(b3.hash, KeyEp(d))]

\* fn do_make_enpassant(b, mv, change, inv)
MakeEnpassant(b, m, color, inv) ==
  LET s == m[3]  d == m[4]  change == {s, d}
      takenPos == Shift(d, 0, -Fwd(color))
      ours == MkCell(color, P)  theirs == MkCell(Other(color), P)
      b1 == IF inv THEN PutCell(PutCell(PutCell(b, s, ours), d, 0), takenPos, theirs)
            ELSE [PutCell(PutCell(PutCell(b, s, 0), d, ours), takenPos, 0)
                    EXCEPT !.hash = Xor(b.hash, Xor(Xor(KeyPiece(ours, s), KeyPiece(ours, d)), KeyPiece(theirs, takenPos)))]
      b2 == WithColorSet(b1, color, Xor(ColorSet(b1, color), change))
      b3 == [b2 EXCEPT !.pieces[ours] = Xor(b2.pieces[ours], change)]
      b4 == WithColorSet(b3, Other(color), Xor(ColorSet(b3, Other(color)), {takenPos}))
  IN [b4 EXCEPT !.pieces[theirs] = Xor(b4.pieces[theirs], {takenPos})]

\* fn do_make_castling_kingside / queenside (b, inv); the bit masks 0xf0/0xa0/0x50 and 0x1d/0x09/0x14
\* shifted by CASTLING_OFFSET are written out as the squares they denote
MakeCastling(b, color, side, inv) ==
  LET r == HomeRank(color)  king == MkCell(color, K)  rook == MkCell(color, R)
      sq(f) == MkSq(f, r)
      b1 == IF side = SideK
            THEN IF inv THEN PutCell(PutCell(PutCell(PutCell(b, sq(4), king), sq(5), 0), sq(6), 0), sq(7), rook)
                 ELSE [PutCell(PutCell(PutCell(PutCell(b, sq(4), 0), sq(5), rook), sq(6), king), sq(7), 0)
                         EXCEPT !.hash = Xor(b.hash, KeyCastleDelta(color, SideK))]
            ELSE IF inv THEN PutCell(PutCell(PutCell(PutCell(b, sq(0), rook), sq(2), 0), sq(3), 0), sq(4), king)
                 ELSE [PutCell(PutCell(PutCell(PutCell(b, sq(0), 0), sq(2), king), sq(3), rook), sq(4), 0)
                         EXCEPT !.hash = Xor(b.hash, KeyCastleDelta(color, SideQ))]
      colMask  == IF side = SideK THEN {sq(4), sq(5), sq(6), sq(7)} ELSE {sq(0), sq(2), sq(3), sq(4)}
      rookMask == IF side = SideK THEN {sq(5), sq(7)} ELSE {sq(0), sq(3)}
      kingMask == IF side = SideK THEN {sq(4), sq(6)} ELSE {sq(2), sq(4)}
      b2 == WithColorSet(b1, color, Xor(ColorSet(b1, color), colMask))
      b3 == [b2 EXCEPT !.pieces[rook] = Xor(b2.pieces[rook], rookMask)]
      b4 == [b3 EXCEPT !.pieces[king] = Xor(b3.pieces[king], kingMask)]
      cr2 == RightsOfSet({cs \in RightsSet(b4.r.castling) : cs[1] # color})     \* unset_color
  IN IF inv THEN b4
     ELSE [b4 EXCEPT !.hash = Xor(Xor(b4.hash, KeyCastling(b4.r.castling)), KeyCastling(cr2)),
                     !.r.castling = cr2]

\* fn do_make_move<C>(b, mv) -> RawUndo.   Returns [board, undo].
DoMake(b, m) ==
  LET color == b.r.side
      kind == m[1]  srcCell == m[2]  s == m[3]  d == m[4]
      dstCell == b.r.cells[d]
      undo == [hash |-> b.hash, dst_cell |-> dstCell, castling |-> b.r.castling, ep |-> b.r.ep,
               hm |-> b.r.hm, fm |-> b.r.fm]
      change == {s, d}
      pawn == MkCell(color, P)
      b0 == IF b.r.ep # -1 THEN [b EXCEPT !.hash = Xor(b.hash, KeyEp(b.r.ep)), !.r.ep = -1] ELSE b
      b1 ==
        CASE kind = KSimple ->
               LET x1 == [PutCell(PutCell(b0, s, 0), d, srcCell)
                            EXCEPT !.hash = Xor(b0.hash, Xor(Xor(KeyPiece(srcCell, s), KeyPiece(srcCell, d)), KeyPiece(dstCell, d)))]
                   x2 == WithColorSet(x1, color, Xor(ColorSet(x1, color), change))
                   x3 == [x2 EXCEPT !.pieces[srcCell] = Xor(x2.pieces[srcCell], change)]
                   x4 == WithColorSet(x3, Other(color), ColorSet(x3, Other(color)) \ {d})
                   x5 == [x4 EXCEPT !.pieces[dstCell] = x4.pieces[dstCell] \ {d}]
               IN IF srcCell # pawn THEN UpdateCastling(x5, change) ELSE x5
          [] kind = KDouble -> MakePawnDouble(b0, m, color, FALSE)
          [] kind \in PromoKinds ->
               LET promote == MkCell(color, PromoPiece(kind))
                   x1 == [PutCell(PutCell(b0, s, 0), d, promote)
                            EXCEPT !.hash = Xor(b0.hash, Xor(Xor(KeyPiece(srcCell, s), KeyPiece(promote, d)), KeyPiece(dstCell, d)))]
                   x2 == WithColorSet(x1, color, Xor(ColorSet(x1, color), change))
                   x3 == [x2 EXCEPT !.pieces[pawn] = Xor(x2.pieces[pawn], {s})]
                   x4 == [x3 EXCEPT !.pieces[promote] = Xor(x3.pieces[promote], {d})]
                   x5 == WithColorSet(x4, Other(color), ColorSet(x4, Other(color)) \ {d})
                   x6 == [x5 EXCEPT !.pieces[dstCell] = x5.pieces[dstCell] \ {d}]
               IN UpdateCastling(x6, change)
          [] kind = KCastleK -> MakeCastling(b0, color, SideK, FALSE)
          [] kind = KCastleQ -> MakeCastling(b0, color, SideQ, FALSE)
          [] kind = KNull -> b0
          [] kind = KEnpassant -> MakeEnpassant(b0, m, color, FALSE)
      b2 == IF dstCell # 0 \/ srcCell = pawn
            THEN [b1 EXCEPT !.r.hm = 0]
            ELSE [b1 EXCEPT !.r.hm = Min2(b1.r.hm + 1, MaxCounter)]          \* saturating_add
      b3 == [b2 EXCEPT !.r.side = Other(color), !.hash = Xor(b2.hash, KeySide)]
      b4 == IF color = Black THEN [b3 EXCEPT !.r.fm = Min2(b3.r.fm + 1, MaxCounter)] ELSE b3
  IN [board |-> [b4 EXCEPT !.all = b4.white \cup b4.black], undo |-> undo]

\* fn do_unmake_move<C>(b, mv, u); C is the colour that made the move (= not b.r.side)
DoUnmake(b, m, u) ==
  LET color == Other(b.r.side)
      kind == m[1]  s == m[3]  d == m[4]
      change == {s, d}
      srcCell == b.r.cells[d]             \* the piece standing on the destination now
      dstCell == u.dst_cell
      b1 ==
        CASE kind = KSimple ->
               LET x1 == PutCell(PutCell(b, s, srcCell), d, dstCell)
                   x2 == WithColorSet(x1, color, Xor(ColorSet(x1, color), change))
                   x3 == [x2 EXCEPT !.pieces[srcCell] = Xor(x2.pieces[srcCell], change)]
               IN IF dstCell # 0
                  THEN LET x4 == WithColorSet(x3, Other(color), ColorSet(x3, Other(color)) \cup {d})
                       IN [x4 EXCEPT !.pieces[dstCell] = x4.pieces[dstCell] \cup {d}]
                  ELSE x3
          [] kind = KDouble -> MakePawnDouble(b, m, color, TRUE)
          [] kind \in PromoKinds ->
               LET pawn == MkCell(color, P)
                   x1 == PutCell(PutCell(b, s, pawn), d, dstCell)
                   x2 == WithColorSet(x1, color, Xor(ColorSet(x1, color), change))
                   x3 == [x2 EXCEPT !.pieces[pawn] = Xor(x2.pieces[pawn], {s})]
                   x4 == [x3 EXCEPT !.pieces[srcCell] = Xor(x3.pieces[srcCell], {d})]
               IN IF dstCell # 0
                  THEN LET x5 == WithColorSet(x4, Other(color), ColorSet(x4, Other(color)) \cup {d})
                       IN [x5 EXCEPT !.pieces[dstCell] = x5.pieces[dstCell] \cup {d}]
                  ELSE x4
          [] kind = KCastleK -> MakeCastling(b, color, SideK, TRUE)
          [] kind = KCastleQ -> MakeCastling(b, color, SideQ, TRUE)
          [] kind = KNull -> b
          [] kind = KEnpassant -> MakeEnpassant(b, m, color, TRUE)
      b2 == [b1 EXCEPT !.hash = u.hash, !.r.castling = u.castling, !.r.ep = u.ep, !.r.hm = u.hm,
                       !.r.side = color, !.r.fm = u.fm]
  IN [b2 EXCEPT !.all = b2.white \cup b2.black]

(***************************************************************************)
(* Legality as the code decides it (legal.rs): prefilter + virtual         *)
(* occupancy king-attack test.                                             *)
(***************************************************************************)
\* attack::bishop / attack::rook are the exact sliding attacks (property C15 binds the tables)
ImplBishop(sq, occ) == BishopAttacks(occ, sq)
ImplRook(sq, occ) == RookAttacks(occ, sq)
PieceDiag(b, color) == b.pieces[MkCell(color, B)] \cup b.pieces[MkCell(color, Q)]
PieceLine(b, color) == b.pieces[MkCell(color, R)] \cup b.pieces[MkCell(color, Q)]
KingPos(b, color) == CHOOSE s \in b.pieces[MkCell(color, K)] : TRUE

\* movegen::do_is_cell_attacked::<C>(b, coord): is `coord` attacked by colour k
ImplIsAttacked(b, coord, k) ==
     b.pieces[MkCell(k, P)] \cap PawnAttackSet(Other(k), coord) # {}
  \/ b.pieces[MkCell(k, K)] \cap KingSet[coord] # {}
  \/ b.pieces[MkCell(k, N)] \cap KnightSet[coord] # {}
  \/ ImplBishop(coord, b.all) \cap PieceDiag(b, k) # {}
  \/ ImplRook(coord, b.all) \cap PieceLine(b, k) # {}

ImplIsCheck(b) == ImplIsAttacked(b, KingPos(b, b.r.side), Other(b.r.side))

\* DefaultPrechecker::pinned
ImplPinned(b, side, king) ==
  LET ours == ColorSet(b, side)
      nearB == ImplBishop(king, b.all) \cap ours
      xrayB == ImplBishop(king, Xor(b.all, nearB))
      pinnersB == xrayB \cap PieceDiag(b, Other(side))
      nearR == ImplRook(king, b.all) \cap ours
      xrayR == ImplRook(king, Xor(b.all, nearR))
      pinnersR == xrayR \cap PieceLine(b, Other(side))
  IN UNION {Between(p, king) \cap ours : p \in pinnersB \cup pinnersR}

\* Checker::is_attacked(pos, all, mask)
CheckerIsAttacked(b, inv, pos, all, mask) ==
     b.pieces[MkCell(inv, P)] \cap PawnAttackSet(Other(inv), pos) \cap mask # {}
  \/ b.pieces[MkCell(inv, K)] \cap KingSet[pos] \cap mask # {}
  \/ b.pieces[MkCell(inv, N)] \cap KnightSet[pos] \cap mask # {}
  \/ ImplBishop(pos, all) \cap PieceDiag(b, inv) \cap mask # {}
  \/ ImplRook(pos, all) \cap PieceLine(b, inv) \cap mask # {}

\* Checker::is_legal with prechecker `pre` in {"default", "nil"}.
\* EpFix = TRUE models the repaired prefilter (e.p. is never pre-approved); FALSE models the
\* original code, on which TLC finds the defect D1 (see MC_Impl).
ImplIsLegal(b, m, pre, EpFix) ==
  LET side == b.r.side  inv == Other(side)  king == KingPos(b, side)
      s == m[3]  d == m[4]
      preAnswer ==
        IF pre = "nil" THEN "none"
        ELSE IF ImplIsCheck(b) THEN "none"
        ELSE IF s \notin (ImplPinned(b, side, king) \cup {king}) /\ (~EpFix \/ m[1] # KEnpassant)
             THEN "yes" ELSE "none"
  IN IF preAnswer = "yes" THEN TRUE
     ELSE IF s = king THEN ~CheckerIsAttacked(b, inv, d, Xor(b.all, {s}), Sq)
     ELSE LET all == Xor(b.all, {s}) \cup {d}
              mask == Sq \ {d}
          IN IF m[1] = KEnpassant
             THEN LET tmp == {Shift(d, 0, Fwd(inv))}      \* pawns::advance_forward(inv, dst)
                  IN ~CheckerIsAttacked(b, inv, king, Xor(all, tmp), Xor(mask, tmp))
             ELSE ~CheckerIsAttacked(b, inv, king, all, mask)

(***************************************************************************)
(* Semilegal generation as the code does it (movegen.rs), as a set.        *)
(***************************************************************************)
ImplGenPawn(b) ==
  LET color == b.r.side  f == Fwd(color)  pawn == MkCell(color, P)
      pawns == b.pieces[pawn]
      promo(s) == RankOf(s) = PromoSrcRank(color)
      tgt(s, d) == IF promo(s) THEN {<<k, pawn, s, d>> : k \in PromoKinds} ELSE {<<KSimple, pawn, s, d>>}
      single == UNION {tgt(s, Shift(s, 0, f)) : s \in {s \in pawns : Shift(s, 0, f) # -1 /\ Shift(s, 0, f) \notin b.all}}
      double == {<<KDouble, pawn, s, Shift(s, 0, 2 * f)>> :
                   s \in {s \in pawns : RankOf(s) = PawnStartRank(color)
                                        /\ Shift(s, 0, f) \notin b.all /\ Shift(s, 0, 2 * f) \notin b.all}}
      allowed == ColorSet(b, Other(color))
      capL == UNION {tgt(s, Shift(s, -1, f)) : s \in {s \in pawns : Shift(s, -1, f) \in allowed}}
      capR == UNION {tgt(s, Shift(s, 1, f)) : s \in {s \in pawns : Shift(s, 1, f) \in allowed}}
      ep == IF b.r.ep = -1 THEN {}
            ELSE LET e == b.r.ep  d == Shift(e, 0, f) IN
                 {<<KEnpassant, pawn, s, d>> :
                     s \in {s \in {Shift(e, -1, 0), Shift(e, 1, 0)} \ {-1} : b.r.cells[s] = pawn}}
  IN single \cup double \cup capL \cup capR \cup ep

ImplGenPieces(b) ==
  LET color == b.r.side  notOurs == Sq \ ColorSet(b, color)
      gen(p, att(_)) == UNION {{<<KSimple, MkCell(color, p), s, d>> : d \in att(s) \cap notOurs} :
                                 s \in b.pieces[MkCell(color, p)]}
  IN gen(N, LAMBDA s : KnightSet[s]) \cup gen(K, LAMBDA s : KingSet[s])
     \cup gen(B, LAMBDA s : ImplBishop(s, b.all)) \cup gen(R, LAMBDA s : ImplRook(s, b.all))
     \cup gen(Q, LAMBDA s : ImplBishop(s, b.all) \cup ImplRook(s, b.all))

ImplGenCastling(b) ==
  LET color == b.r.side  r == HomeRank(color)  opp == Other(color)  sq(f) == MkSq(f, r)
      king == MkCell(color, K)
  IN    (IF HasRight(b.r.castling, color, SideK) /\ {sq(5), sq(6)} \cap b.all = {}
            /\ ~ImplIsAttacked(b, sq(4), opp) /\ ~ImplIsAttacked(b, sq(5), opp)
         THEN {<<KCastleK, king, sq(4), sq(6)>>} ELSE {})
   \cup (IF HasRight(b.r.castling, color, SideQ) /\ {sq(1), sq(2), sq(3)} \cap b.all = {}
            /\ ~ImplIsAttacked(b, sq(4), opp) /\ ~ImplIsAttacked(b, sq(3), opp)
         THEN {<<KCastleQ, king, sq(4), sq(2)>>} ELSE {})

ImplSemilegal(b) == ImplGenPawn(b) \cup ImplGenPieces(b) \cup ImplGenCastling(b)
ImplLegalGen(b, EpFix) == {m \in ImplSemilegal(b) : ImplIsLegal(b, m, "default", EpFix)}
\* has_legal_moves: the early-exit enumerator skips castling
ImplHasLegalMoves(b, EpFix) ==
  \E m \in ImplGenPawn(b) \cup ImplGenPieces(b) : ImplIsLegal(b, m, "default", EpFix)

(***************************************************************************)
(* Move validation as the code does it (moves/base.rs):                    *)
(* Move::is_well_formed is Rules!WellFormed (already a transcription);     *)
(* do_is_move_semilegal below.  The strictly-between tables are exact on   *)
(* aligned pairs; on the other pairs the generated tables hold leftovers   *)
(* (known finding F1) - modelled as the parameter `junk`: the obligation   *)
(* is checked for junk = {} and junk = Sq, i.e. it does not depend on them *)
(* because a well-formed bishop/rook/queen move only ever asks about       *)
(* aligned pairs.                                                          *)
(***************************************************************************)
ImplBishopStrict(s, d, junk) == IF SameDiag(s, d) THEN Between(s, d) ELSE junk
ImplRookStrict(s, d, junk) == IF SameLine(s, d) THEN Between(s, d) ELSE junk
CastlingPass(color, side) ==
  LET r == HomeRank(color) IN IF side = SideK THEN {MkSq(5, r), MkSq(6, r)} ELSE {MkSq(1, r), MkSq(2, r), MkSq(3, r)}

ImplSemiValidate(b, m, junk) ==
  LET color == b.r.side  opp == Other(color)  k == m[1]  cell == m[2]  s == m[3]  d == m[4]
      dc == b.r.cells[d]  delta == 8 * Fwd(color)  pc == PieceOf(cell) IN
  IF k = KNull \/ b.r.cells[s] # cell \/ ColorOf(cell) # color \/ ColorOf(dc) = color THEN FALSE
  ELSE CASE pc = P ->
              (CASE k = KDouble -> b.r.cells[s + delta] = 0 /\ dc = 0
                 [] k = KEnpassant -> b.r.ep # -1 /\ (b.r.ep = s + 1 \/ b.r.ep = s - 1) /\ d = b.r.ep + delta
                 [] OTHER -> (FileOf(d) = FileOf(s)) = (dc = 0))
         [] pc = K ->
              (CASE k = KCastleK -> /\ HasRight(b.r.castling, color, SideK) /\ b.all \cap CastlingPass(color, SideK) = {}
                                    /\ ~ImplIsAttacked(b, s, opp) /\ ~ImplIsAttacked(b, s + 1, opp)
                 [] k = KCastleQ -> /\ HasRight(b.r.castling, color, SideQ) /\ b.all \cap CastlingPass(color, SideQ) = {}
                                    /\ ~ImplIsAttacked(b, s, opp) /\ ~ImplIsAttacked(b, s - 1, opp)
                 [] OTHER -> TRUE)
         [] pc = N -> TRUE
         [] pc = B -> ImplBishopStrict(s, d, junk) \cap b.all = {}
         [] pc = R -> ImplRookStrict(s, d, junk) \cap b.all = {}
         [] pc = Q -> IF SameDiag(s, d) THEN ImplBishopStrict(s, d, junk) \cap b.all = {}
                      ELSE ImplRookStrict(s, d, junk) \cap b.all = {}

\* every well-formed move value (any colour, any man), indexed by source square and man - evaluated once

(***************************************************************************)
(* Board validation as the code does it (TryFrom<RawBoard> for Board):     *)
(* first the e.p. rank test and the two normalisations on the RAW record,  *)
(* then the occupancy sets, then the tests in code order - the FIRST one   *)
(* that fires is the reported reason.  Result: [ok |-> TRUE, b |-> board]  *)
(* or [ok |-> FALSE, err |-> <<name, argument>>].                          *)
(***************************************************************************)
ImplTryFrom(raw) ==
  LET s == raw.side  c == raw.cells
      epBad == raw.ep # -1 /\ RankOf(raw.ep) # EpSrcRank(s)
      \* (only evaluated when the rank is right: then the square in front exists)
      epKeep == raw.ep # -1 /\ ~epBad /\ c[raw.ep] = MkCell(Other(s), P) /\ c[raw.ep + 8 * Fwd(s)] = 0
      keep == {cs \in RightsSet(raw.castling) :
                  c[KingHome(cs[1])] = MkCell(cs[1], K) /\ c[RookHome(cs[1], cs[2])] = MkCell(cs[1], R)}
      r2 == [raw EXCEPT !.ep = IF epKeep THEN raw.ep ELSE -1, !.castling = RightsOfSet(keep)]
      b == Scratch(r2)
      wk == b.pieces[MkCell(White, K)]  bk == b.pieces[MkCell(Black, K)]
      badPawns == (b.pieces[MkCell(White, P)] \cup b.pieces[MkCell(Black, P)]) \cap {q \in Sq : RankOf(q) \in {0, 7}}
      E(name, arg) == [ok |-> FALSE, err |-> <<name, arg>>]
  IN IF epBad THEN E("InvalidEnpassant", raw.ep)
     ELSE IF Cardinality(b.white) > 16 THEN E("TooManyPieces", White)
     ELSE IF Cardinality(b.black) > 16 THEN E("TooManyPieces", Black)
     ELSE IF wk = {} THEN E("NoKing", White)
     ELSE IF bk = {} THEN E("NoKing", Black)
     ELSE IF Cardinality(wk) > 1 THEN E("TooManyKings", White)
     ELSE IF Cardinality(bk) > 1 THEN E("TooManyKings", Black)
     ELSE IF badPawns # {} THEN E("InvalidPawn", SetMin(badPawns))         \* the iterator yields the lowest index first
     ELSE IF ImplIsAttacked(b, KingPos(b, Other(s)), s) THEN E("OpponentKingAttacked", 0)
     ELSE [ok |-> TRUE, b |-> b]

\* C11 at the design level: accept exactly the valid boards, report a reason that holds, normalise as Rules says,
\* and hand out a board whose derived state is consistent; validating the result again changes nothing
Obl_TryFrom(raw) ==
  LET r == ImplTryFrom(raw)  S == Conditions(raw) IN
  /\ r.ok <=> (S = {})
  /\ ~r.ok => r.err \in S
  /\ r.ok => /\ r.b.r = Normalise(raw) /\ Consistent(r.b) /\ IsValid(r.b.r)
             /\ ImplTryFrom(r.b.r) = r

(***************************************************************************)
(* Outcome of a position as the code calculates it (Board::calc_outcome,   *)
(* calc_draw_simple, is_insufficient_material with its light/dark cutoff). *)
(***************************************************************************)
ImplInsufficient(b) ==
  LET x == Xor(b.all, b.pieces[MkCell(White, K)] \cup b.pieces[MkCell(Black, K)])
      knights == b.pieces[MkCell(White, N)] \cup b.pieces[MkCell(Black, N)]
      bishops == b.pieces[MkCell(White, B)] \cup b.pieces[MkCell(Black, B)]
  IN IF (\E q \in x : SqColor(q) = 0) /\ (\E q \in x : SqColor(q) = 1) THEN FALSE     \* LIGHT_SQUARES / DARK_SQUARES
     ELSE IF x = {} THEN TRUE
     ELSE IF x = knights /\ Cardinality(knights) = 1 THEN TRUE
     ELSE x = bishops
ImplDrawSimple(b) ==
  IF ImplInsufficient(b) THEN "insufficient"
  ELSE IF b.r.hm >= 150 THEN "moves75" ELSE IF b.r.hm >= 100 THEN "moves50" ELSE "none"
ImplCalcOutcome(b, EpFix) ==
  IF ~ImplHasLegalMoves(b, EpFix)
  THEN (IF ImplIsCheck(b) THEN <<"win", Other(b.r.side), "checkmate">> ELSE <<"draw", "stalemate">>)
  ELSE LET d == ImplDrawSimple(b) IN IF d = "none" THEN <<"none">> ELSE <<"draw", d>>
\* C07 at the design level
Obl_Outcome(b, EpFix) ==
  /\ ImplCalcOutcome(b, EpFix) \in OutcomeAllowed(b.r, 1)
  /\ ImplDrawSimple(b) \in DrawSimpleAllowed(b.r)
  /\ ImplInsufficient(b) = Insufficient(b.r.cells)

(***************************************************************************)
(* The refinement obligations between the two layers (checked by TLC on    *)
(* bounded models, see MC_Impl.tla).                                       *)
(***************************************************************************)
Obl_Make(b, m) ==          \* C03 + C05 at the design level (m may be the null move)
  LET res == DoMake(b, m).board IN
  /\ res.r = ApplyMove(b.r, m)
  /\ Consistent(res)
Obl_Undo(b, m) ==          \* C04 at the design level
  LET mk == DoMake(b, m) IN DoUnmake(mk.board, m, mk.undo) = b
Obl_Legal(b, EpFix) ==     \* C01 / C06 / C07 at the design level
  /\ ImplSemilegal(b) = PseudoLegal(b.r)
  /\ ImplLegalGen(b, EpFix) = Legal(b.r)
  /\ ImplHasLegalMoves(b, EpFix) = (Legal(b.r) # {})
  /\ \A m \in PseudoLegal(b.r) : ImplIsLegal(b, m, "nil", EpFix) = LeavesKingSafe(b.r, m)
WFBy == [s \in Sq |-> [c \in 1..12 |-> {m \in (1..9) \X {c} \X {s} \X Sq : WellFormed(m)}]]
AllWellFormed == UNION {WFBy[s][c] : s \in Sq, c \in 1..12}
TwinCell(c) == IF c <= 6 THEN c + 6 ELSE c - 6
Obl_SemiValidate(b) ==     \* C06 (validator side) at the design level
  LET PL == PseudoLegal(b.r)
      \* every well-formed move of the man that stands on its source square, of its colour-flipped twin, and -
      \* from one empty square - of every man
      cand == UNION {WFBy[s][b.r.cells[s]] \cup WFBy[s][TwinCell(b.r.cells[s])] : s \in b.all}
              \cup (IF b.all = Sq THEN {} ELSE LET e == CHOOSE e \in Sq \ b.all : TRUE IN UNION {WFBy[e][c] : c \in 1..12})
  IN /\ PL \subseteq cand
     /\ \A m \in cand : \A junk \in {{}, Sq} : ImplSemiValidate(b, m, junk) = (m \in PL)
=============================================================================
