------------------------------- MODULE Chain -------------------------------
(***************************************************************************)
(* Move chains and walkers.                                                *)
(*                                                                         *)
(* ABSTRACT chain (what the properties talk about):                        *)
(*   [start, moves, hist, outcome] where hist is the sequence of positions *)
(*   start = hist[1], ..., current = hist[Len(moves) + 1], each obtained   *)
(*   from the previous one with Rules!ApplyMove.                           *)
(* IMPLEMENTATION-SHAPED chain (what chain.rs does): a live model board    *)
(*   mutated in place with DoMake/DoUnmake, a stack of (move, undo), a     *)
(*   repetition multiset keyed by the (abstract) Zobrist hash, a stored    *)
(*   outcome; and a walker with a logical cursor, a physical cursor and a  *)
(*   private board copy that is moved lazily (set_board_pos).              *)
(* MC_Chain checks on bounded models that the second refines the first.    *)
(***************************************************************************)
EXTENDS BoardImpl, Types, TLC

NoOutcome == <<"none">>
NullMove == <<0, 0, 0, 0>>

NewChain(pos) == [start |-> pos, moves |-> <<>>, hist |-> <<pos>>, outcome |-> NoOutcome]
Cur(ch) == ch.hist[Len(ch.hist)]
ChLen(ch) == Len(ch.moves)
RepCount(ch) == Cardinality({i \in 1..Len(ch.hist) : Key(ch.hist[i]) = Key(Cur(ch))})
ChPush(ch, m) == [ch EXCEPT !.moves = Append(@, m), !.hist = Append(@, ApplyMove(Cur(ch), m))]
ChPop(ch) ==
  IF ch.moves = <<>> THEN ch
  ELSE [ch EXCEPT !.moves = SubSeq(@, 1, Len(@) - 1), !.hist = SubSeq(@, 1, Len(@) - 1), !.outcome = NoOutcome]
ChainEq(a, b) == a.start = b.start /\ a.moves = b.moves /\ a.outcome = b.outcome

\* calc_outcome / set_auto_outcome
ChOutcomeAllowed(ch) == OutcomeAllowed(Cur(ch), RepCount(ch))
AutoAllowed(ch, filter) ==
  LET pass == {o \in ChOutcomeAllowed(ch) : o # NoOutcome /\ OutcomePasses(o, filter)} IN
  IF pass # {} THEN pass ELSE {NoOutcome}

(***************************************************************************)
(* Abstract walker: a cursor i in 0..len.                                  *)
(*   next: at the end -> none, else returns (hist[i+1], moves[i+1]), i+1   *)
(*   prev: at the start -> none, else i-1, returns (hist[i], moves[i])     *)
(***************************************************************************)
WNext(ch, i) == IF i = ChLen(ch) THEN [some |-> FALSE, i |-> i]
                ELSE [some |-> TRUE, i |-> i + 1, pos |-> ch.hist[i + 1], m |-> ch.moves[i + 1]]
WPrev(ch, i) == IF i = 0 THEN [some |-> FALSE, i |-> i]
                ELSE [some |-> TRUE, i |-> i - 1, pos |-> ch.hist[i], m |-> ch.moves[i]]

(***************************************************************************)
(* Printing.                                                               *)
(***************************************************************************)
RECURSIVE NatText(_)
NatText(n) == IF n < 10 THEN <<48 + n>> ELSE NatText(n \div 10) \o <<48 + (n % 10)>>

RECURSIVE JoinWith(_, _, _)
JoinWith(texts, sep, i) ==
  IF i > Len(texts) THEN <<>>
  ELSE (IF i > 1 THEN sep ELSE <<>>) \o texts[i] \o JoinWith(texts, sep, i + 1)

UciListText(ch) == JoinWith([i \in 1..ChLen(ch) |-> UciOf(ch.moves[i])], <<32>>, 1)

StatusText(o) ==
  IF o = NoOutcome THEN <<42>>                                     \* "*"
  ELSE IF o[1] = "draw" THEN <<49, 47, 50, 45, 49, 47, 50>>        \* "1/2-1/2"
  ELSE IF o[2] = White THEN <<49, 45, 48>> ELSE <<48, 45, 49>>     \* "1-0" / "0-1"

\* moveText(i) = the text of move i in the requested style; nums in {"omit","board","custom"}
StyledText(ch, nums, custom, showStatus, moveText(_)) ==
  IF ch.moves = <<>> THEN (IF showStatus THEN StatusText(ch.outcome) ELSE <<>>)
  ELSE
    LET realStart == ch.hist[1].fm
        hasNum == nums # "omit"
        num == IF nums = "board" THEN realStart ELSE custom
        first == (IF hasNum
                  THEN NatText(num) \o (IF ch.hist[1].side = White THEN <<46, 32>> ELSE <<46, 46, 46, 32>>)
                  ELSE <<>>) \o moveText(1)
        rest(i) == (IF hasNum /\ ch.hist[i].side = White
                    THEN <<32>> \o NatText(ch.hist[i].fm - realStart + num) \o <<46>> ELSE <<>>)
                   \o <<32>> \o moveText(i)
        RECURSIVE Cat(_)
        Cat(i) == IF i > ChLen(ch) THEN <<>> ELSE rest(i) \o Cat(i + 1)
    IN first \o Cat(2) \o (IF showStatus THEN <<32>> \o StatusText(ch.outcome) ELSE <<>>)

(***************************************************************************)
(* Implementation-shaped chain and walker.                                 *)
(***************************************************************************)
\* repetition table: function from (abstract) hash to count
BagAdd(bag, h) == IF h \in DOMAIN bag THEN [bag EXCEPT ![h] = @ + 1] ELSE bag @@ (h :> 1)
BagDel(bag, h) == IF bag[h] = 1 THEN [x \in DOMAIN bag \ {h} |-> bag[x]] ELSE [bag EXCEPT ![h] = @ - 1]
BagCount(bag, h) == IF h \in DOMAIN bag THEN bag[h] ELSE 0

INew(pos) == LET b == Scratch(pos) IN
             [start |-> pos, board |-> b, repeat |-> (b.hash :> 1), stack |-> <<>>, outcome |-> NoOutcome]
\* push of an accepted (legal) move: make_raw mutates the board, then do_finish_push
IPush(ic, m) == LET mk == DoMake(ic.board, m) IN
                [ic EXCEPT !.board = mk.board, !.repeat = BagAdd(@, mk.board.hash),
                           !.stack = Append(@, [m |-> m, u |-> mk.undo])]
\* a refused push of a semilegal-but-illegal move: make, test, roll back (TryUnchecked::make_raw)
IPushRefused(ic, m) == LET mk == DoMake(ic.board, m) IN
                       [ic EXCEPT !.board = DoUnmake(mk.board, m, mk.undo)]
IPop(ic) ==
  IF ic.stack = <<>> THEN ic
  ELSE LET t == ic.stack[Len(ic.stack)] IN
       [ic EXCEPT !.stack = SubSeq(@, 1, Len(@) - 1), !.repeat = BagDel(@, ic.board.hash),
                  !.outcome = NoOutcome, !.board = DoUnmake(ic.board, t.m, t.u)]
ICalcOutcomeAllowed(ic) == OutcomeAllowed(ic.board.r, BagCount(ic.repeat, ic.board.hash))

\* Walker { board, stack, pos, board_pos }
IWalk(ic) == [board |-> ic.board, pos |-> 0, bpos |-> Len(ic.stack)]
RECURSIVE ISetBoardPos(_, _, _)
ISetBoardPos(ic, w, target) ==
  IF w.bpos > target
  THEN LET t == ic.stack[w.bpos] IN      \* stack index is 1-based: entry (bpos-1) of the code
       ISetBoardPos(ic, [w EXCEPT !.bpos = @ - 1, !.board = DoUnmake(w.board, t.m, t.u)], target)
  ELSE IF w.bpos < target
  THEN LET t == ic.stack[w.bpos + 1] IN
       ISetBoardPos(ic, [w EXCEPT !.bpos = @ + 1, !.board = DoMake(w.board, t.m).board], target)
  ELSE w
IWNext(ic, w) == IF w.pos = Len(ic.stack) THEN [some |-> FALSE, w |-> w]
                 ELSE LET w2 == ISetBoardPos(ic, [w EXCEPT !.pos = @ + 1], w.pos) IN
                      [some |-> TRUE, w |-> w2, board |-> w2.board, m |-> ic.stack[w2.pos].m]
IWPrev(ic, w) == IF w.pos = 0 THEN [some |-> FALSE, w |-> w]
                 ELSE LET w2 == ISetBoardPos(ic, [w EXCEPT !.pos = @ - 1], w.pos - 1) IN
                      [some |-> TRUE, w |-> w2, board |-> w2.board, m |-> ic.stack[w2.pos + 1].m]

\* the refinement mapping: the implementation-shaped chain represents the abstract chain
Refines(ic, ch) ==
  /\ ic.start = ch.start
  /\ ic.board = Scratch(Cur(ch))
  /\ [i \in 1..Len(ic.stack) |-> ic.stack[i].m] = ch.moves
  /\ ic.outcome = ch.outcome
  /\ \A h \in DOMAIN ic.repeat :
        ic.repeat[h] = Cardinality({i \in 1..Len(ch.hist) : ScratchHash(ch.hist[i]) = h})
  /\ \A i \in 1..Len(ch.hist) : ScratchHash(ch.hist[i]) \in DOMAIN ic.repeat
  /\ BagCount(ic.repeat, ic.board.hash) = RepCount(ch)
=============================================================================
