------------------------------ MODULE Families ------------------------------
(***************************************************************************)
(* Structured input families: ordinary set comprehensions over the         *)
(* geometry that random sampling misses (every king square x every pin    *)
(* ray x every pinner, every en-passant exposure geometry, every castling  *)
(* obstruction...).  TLC enumerates them (MC_Families) and the positions   *)
(* are replayed into the real code.                                        *)
(*                                                                         *)
(* Every family is given as                                                *)
(*    Coarse(f)      a finite set of coarse parameters                     *)
(*    Fine(f, x)     a finite set of fine parameters for coarse x          *)
(*    Build(f, x, y) a raw position (not necessarily valid)                *)
(* and only positions with Rules!IsValid are emitted.                      *)
(***************************************************************************)
EXTENDS Rules

EmptyCells == [s \in Sq |-> 0]
Place(c, sq, cell) == [c EXCEPT ![sq] = cell]
MkPos(c, side, cr, ep, hm, fm) == [cells |-> c, side |-> side, castling |-> cr, ep |-> ep, hm |-> hm, fm |-> fm]

\* park the king of `color` on the first free square of a fixed list on which it is not attacked
\* (so that it is neither in check by a man already placed nor adjacent to the other king);
\* the final Rules!IsValid filter is applied by the caller on the finished position
ParkList == <<0, 7, 56, 63, 2, 5, 58, 61, 16, 23, 40, 47, 26, 29, 34, 37, 9, 14, 49, 54, 19, 20, 43, 44>>
ParkCells(c, color) ==
  LET ok == {i \in 1..Len(ParkList) : c[ParkList[i]] = 0 /\ ~IsAttacked(c, ParkList[i], Other(color))} IN
  IF ok = {} THEN c ELSE Place(c, ParkList[SetMin(ok)], MkCell(color, K))
Park(c, color, side, cr, ep, hm, fm) == MkPos(ParkCells(c, color), side, cr, ep, hm, fm)

Bools == {0, 1}          \* flags are integers so that parameter tuples can be hashed for sampling
SliderPieces == {B, R, Q}

(***************************************************************************)
(* F_EP: en-passant exposure.  side x victim file x which capturers exist  *)
(* (coarse) ; own king square x enemy slider square x slider type (fine).  *)
(***************************************************************************)
EpCoarse == {<<side, vf, cl, cr>> \in {0, 1} \X (0..7) \X Bools \X Bools : cl + cr >= 1}
\* (the enemy man is usually a slider - exposure - but may be a knight or pawn: the mover is then possibly
\*  in check by a NON-slider while an e.p. capture is available)
EpFine(x) == Sq \X Sq \X {N, B, R, Q, P}
EpBuild(x, y) ==
  LET side == x[1]  vf == x[2]  opp == Other(side)
      r == EpSrcRank(side)
      victim == MkSq(vf, r)
      c0 == Place(EmptyCells, victim, MkCell(opp, P))
      c1 == IF x[3] = 1 /\ vf > 0 THEN Place(c0, MkSq(vf - 1, r), MkCell(side, P)) ELSE c0
      c2 == IF x[4] = 1 /\ vf < 7 THEN Place(c1, MkSq(vf + 1, r), MkCell(side, P)) ELSE c1
      ksq == y[1]  esq == y[2]
  IN IF c2[ksq] # 0 \/ c2[esq] # 0 \/ ksq = esq \/ ksq = Shift(victim, 0, Fwd(side)) \/ esq = Shift(victim, 0, Fwd(side))
        \/ (y[3] = P /\ RankOf(esq) \in {0, 7})
     THEN MkPos(EmptyCells, side, 0, -1, 0, 1)       \* invalid: filtered
     ELSE Park(Place(Place(c2, ksq, MkCell(side, K)), esq, MkCell(opp, y[3])), opp, side, 0, victim, 0, 1)

(***************************************************************************)
(* F_EPEDGE: e.p. on the edge files with an extra own pawn anywhere (index *)
(* arithmetic that wraps around the board edge shows up here).             *)
(***************************************************************************)
EdgeCoarse == {<<side, vf, withCap>> \in {0, 1} \X {0, 7} \X Bools : TRUE}
EdgeFine(x) == {<<s>> : s \in {s \in Sq : RankOf(s) \in 1..6}}
EdgeBuild(x, y) ==
  LET side == x[1]  vf == x[2]  opp == Other(side)  r == EpSrcRank(side)
      victim == MkSq(vf, r)
      c0 == Place(EmptyCells, victim, MkCell(opp, P))
      nb == MkSq(IF vf = 0 THEN 1 ELSE 6, r)
      c1 == IF x[3] = 1 THEN Place(c0, nb, MkCell(side, P)) ELSE c0
  IN IF c1[y[1]] # 0 \/ y[1] = Shift(victim, 0, Fwd(side))
     THEN MkPos(EmptyCells, side, 0, -1, 0, 1)
     ELSE LET c2 == Place(c1, y[1], MkCell(side, P))
              p1 == Park(c2, side, side, 0, victim, 0, 1)
          IN Park(p1.cells, opp, side, 0, victim, 0, 1)

(***************************************************************************)
(* F_ONLYEP: the mover's king is stalemated in a corner by a queen, his    *)
(* only pawn is blocked, and an e.p. capture is the only candidate move.   *)
(***************************************************************************)
OnlyEpCoarse == {<<side, corner>> \in {0, 1} \X {0, 7, 56, 63} : TRUE}
OnlyEpFine(x) == {<<q, f, d>> \in Sq \X (0..7) \X {-1, 1} : f + d \in 0..7}
OnlyEpBuild(x, y) ==
  LET side == x[1]  corner == x[2]  opp == Other(side)  r == EpSrcRank(side)
      capt == MkSq(y[2], r)  victim == MkSq(y[2] + y[3], r)
      block == Shift(capt, 0, Fwd(side))
      qsq == y[1]
      used == {corner, capt, victim, block, Shift(victim, 0, Fwd(side))}
  IN IF qsq \in used \/ corner \in {capt, victim, block} \/ Cardinality(used) < 5
     THEN MkPos(EmptyCells, side, 0, -1, 0, 1)
     ELSE LET c == Place(Place(Place(Place(Place(EmptyCells, corner, MkCell(side, K)), capt, MkCell(side, P)),
                                       victim, MkCell(opp, P)), block, MkCell(opp, P)), qsq, MkCell(opp, Q))
          IN Park(c, opp, side, 0, victim, 0, 1)

(***************************************************************************)
(* F_PIN: king square x ray (coarse); own piece type at distance i, enemy  *)
(* slider type at distance j > i, side (fine).                             *)
(***************************************************************************)
PinCoarse == {<<k, d>> \in Sq \X AllDirs : RayLen(k, d) >= 2}
PinFine(x) == {<<side, p, i, e, j>> \in {0, 1} \X {P, N, B, R, Q} \X (1..6) \X SliderPieces \X (2..7) :
                  i < j /\ j <= RayLen(x[1], x[2])}
PinBuild(x, y) ==
  LET k == x[1]  ray == RayTbl[k][x[2]]  side == y[1]  opp == Other(side)
      own == ray[y[3]]  en == ray[y[5]]
  IN IF y[2] = P /\ RankOf(own) \in {0, 7}
     THEN MkPos(EmptyCells, side, 0, -1, 0, 1)
     ELSE Park(Place(Place(Place(EmptyCells, k, MkCell(side, K)), own, MkCell(side, y[2])), en, MkCell(opp, y[4])),
               opp, side, 0, -1, 0, 1)

(***************************************************************************)
(* F_CASTLE: colour x rights of that colour (coarse); one enemy piece of   *)
(* each type on each square x optional blocker on b/c/d/f/g (fine).        *)
(***************************************************************************)
CastleCoarse == {<<side, ks, qs>> \in {0, 1} \X Bools \X Bools : ks + qs >= 1}
\* (the enemy piece may be the enemy KING itself: it attacks the squares next to it)
CastleFine(x) == {<<ep, esq, bf, bown>> \in {P, N, B, R, Q, K} \X Sq \X {-1, 1, 2, 3, 5, 6} \X Bools : TRUE}
CastleBuild(x, y) ==
  LET side == x[1]  opp == Other(side)  r == HomeRank(side)
      c0 == Place(Place(Place(EmptyCells, MkSq(4, r), MkCell(side, K)), MkSq(0, r), MkCell(side, R)),
                  MkSq(7, r), MkCell(side, R))
      cr == RightsOfSet((IF x[2] = 1 THEN {<<side, SideK>>} ELSE {}) \cup (IF x[3] = 1 THEN {<<side, SideQ>>} ELSE {}))
      esq == y[2]
      bsq == IF y[3] = -1 THEN -1 ELSE MkSq(y[3], r)
  IN IF c0[esq] # 0 \/ esq = bsq \/ (y[1] = P /\ RankOf(esq) \in {0, 7})
     THEN MkPos(EmptyCells, side, 0, -1, 0, 1)
     ELSE LET c1 == Place(c0, esq, MkCell(opp, y[1]))
              c2 == IF bsq = -1 THEN c1 ELSE Place(c1, bsq, MkCell(IF y[4] = 1 THEN side ELSE opp, N))
          IN IF y[1] = K THEN MkPos(c2, side, cr, -1, 0, 1) ELSE Park(c2, opp, side, cr, -1, 0, 1)

(***************************************************************************)
(* F_PROMO: colour x pawn file (coarse); contents of the three target      *)
(* squares: 0 empty, 1 enemy knight, 2 enemy rook (with its castling right *)
(* when it stands on a corner), 3 own knight (fine).                       *)
(***************************************************************************)
PromoCoarse == {<<side, f>> \in {0, 1} \X (0..7) : TRUE}
PromoFine(x) == {<<a, b, c>> \in (0..3) \X (0..3) \X (0..3) : TRUE}
PromoBuild(x, y) ==
  LET side == x[1]  f == x[2]  opp == Other(side)
      src == MkSq(f, PromoSrcRank(side))  dr == PromoDstRank(side)
      put(c, ff, v) == IF ff \notin 0..7 \/ v = 0 THEN c
                       ELSE Place(c, MkSq(ff, dr), IF v = 1 THEN MkCell(opp, N) ELSE IF v = 2 THEN MkCell(opp, R) ELSE MkCell(side, N))
      c0 == Place(EmptyCells, src, MkCell(side, P))
      c1 == put(put(put(c0, f - 1, y[1]), f, y[2]), f + 1, y[3])
      \* the enemy king stands at home so that a corner rook may keep its right
      c2 == Place(c1, MkSq(4, dr), MkCell(opp, K))
      cr == RightsOfSet({<<opp, s>> : s \in {s \in {0, 1} : c2[RookHome(opp, s)] = MkCell(opp, R)}})
  IN IF c1[MkSq(4, dr)] # 0 THEN MkPos(EmptyCells, side, 0, -1, 0, 1)
     ELSE Park(c2, side, side, cr, -1, 0, 1)

(***************************************************************************)
(* F_MAT: material / clock.  multisets of up to 3 extra men, each placed   *)
(* on a light or a dark square, x half-move clock around the thresholds.   *)
(***************************************************************************)
MatKinds == {MkCell(col, p) : col \in {0, 1}, p \in {P, N, B, R, Q}}
MatCoarse == {<<a, b>> \in (MatKinds \cup {0}) \X (MatKinds \cup {0}) : a <= b}
MatFine(x) == {<<c, la, lb, lc, hm, side>> \in (MatKinds \cup {0}) \X Bools \X Bools \X Bools
                                               \X {0, 99, 100, 149, 150} \X {0, 1} : x[2] <= c}
LightSlots == <<18, 20, 34>>      \* c6, e6, c4 : light squares ((f+r) even)
DarkSlots  == <<19, 21, 35>>      \* d6, f6, d4 : dark squares
MatBuild(x, y) ==
  LET slot(i, light) == IF light = 1 THEN LightSlots[i] ELSE DarkSlots[i]
      put(c, cell, i, light) == IF cell = 0 THEN c ELSE Place(c, slot(i, light), cell)
      c1 == put(put(put(EmptyCells, x[1], 1, y[2]), x[2], 2, y[3]), y[1], 3, y[4])
      side == y[6]
      p1 == Park(c1, side, side, 0, -1, y[5], 1)
  IN Park(p1.cells, Other(side), side, 0, -1, y[5], 1)

(***************************************************************************)
(* F_CHK: check evasion.  king square (coarse); attacker type and square,  *)
(* one own defender type and square (fine, sampled by the caller).         *)
(***************************************************************************)
ChkCoarse == {<<k, side>> \in {0, 3, 9, 18, 27, 28, 36, 60, 63} \X {0, 1} : TRUE}
ChkFine(x) == {<<ap, asq, dp, dsq>> \in {P, N, B, R, Q} \X Sq \X {P, N, B, R, Q} \X Sq : asq # dsq}
ChkBuild(x, y) ==
  LET k == x[1]  side == x[2]  opp == Other(side) IN
  IF y[2] = k \/ y[4] = k \/ (y[1] = P /\ RankOf(y[2]) \in {0, 7}) \/ (y[3] = P /\ RankOf(y[4]) \in {0, 7})
  THEN MkPos(EmptyCells, side, 0, -1, 0, 1)
  ELSE Park(Place(Place(Place(EmptyCells, k, MkCell(side, K)), y[2], MkCell(opp, y[1])), y[4], MkCell(side, y[3])),
            opp, side, 0, -1, 0, 1)

(***************************************************************************)
(* F_AMBIG: SAN disambiguation.  piece type x destination (coarse); two or *)
(* three like pieces on squares that reach the destination on an empty     *)
(* board, destination empty or holding an enemy man, side (fine).          *)
(***************************************************************************)
ReachEmpty(p, sq) ==
  CASE p = N -> KnightSet[sq]
    [] p = B -> SlideAttacks({}, sq, DiagDirs)
    [] p = R -> SlideAttacks({}, sq, OrthDirs)
    [] p = Q -> SlideAttacks({}, sq, AllDirs)
AmbigCoarse == {<<p, dd>> \in {N, B, R, Q} \X Sq : TRUE}
AmbigFine(x) ==
  LET src == ReachEmpty(x[1], x[2]) IN
  {<<s1, s2, s3, cap, side>> \in src \X src \X (src \cup {-1}) \X {0, 1} \X {0, 1} :
      s1 < s2 /\ (s3 = -1 \/ s2 < s3)}
AmbigBuild(x, y) ==
  LET p == x[1]  dd == x[2]  side == y[5]  opp == Other(side)
      c0 == Place(Place(EmptyCells, y[1], MkCell(side, p)), y[2], MkCell(side, p))
      c1 == IF y[3] = -1 THEN c0 ELSE Place(c0, y[3], MkCell(side, p))
      c2 == IF y[4] = 1 THEN Place(c1, dd, MkCell(opp, N)) ELSE c1
      p1 == Park(c2, side, side, 0, -1, 0, 1)
  IN Park(p1.cells, opp, side, 0, -1, 0, 1)

(***************************************************************************)
(* F_MINOR: kings + one or two minor pieces on EVERY square (pair): the    *)
(* insufficient-material rule depends on square colours, so every square   *)
(* must be tried, not a few representative ones.                           *)
(*   coarse: first square; fine: second square or -1, piece kinds/colours, *)
(*   clock, side                                                           *)
(***************************************************************************)
MinorCoarse == {<<s1>> : s1 \in Sq}
MinorFine(x) == {<<s2, k1, k2, hm, side>> \in (Sq \cup {-1}) \X {MkCell(0, B), MkCell(1, B), MkCell(0, N)}
                                             \X {MkCell(0, B), MkCell(1, B), MkCell(1, N)} \X {0, 100} \X {0, 1} :
                    s2 = -1 \/ s2 > x[1]}
MinorBuild(x, y) ==
  LET c0 == Place(EmptyCells, x[1], y[2])
      c1 == IF y[1] = -1 THEN c0 ELSE Place(c0, y[1], y[3])
      side == y[5]
      p1 == Park(c1, side, side, 0, -1, y[4], 1)
  IN Park(p1.cells, Other(side), side, 0, -1, y[4], 1)

(***************************************************************************)
(* F_ROOKCAP: a rook that still carries its castling right is captured on  *)
(* its home corner by every kind of man from every square that reaches it  *)
(* (the king included), or a spare rook moves onto / along the corner file.*)
(*   coarse: corner (1..4) ; fine: piece type, source square, extra flag   *)
(***************************************************************************)
Corners == <<0, 7, 56, 63>>
RookCapCoarse == {<<i>> : i \in 1..4}
RookCapFine(x) ==
  LET corner == Corners[x[1]] IN
  {<<p, s, both>> \in {K, N, B, R, Q, P} \X Sq \X {0, 1} :
      s # corner /\ (CASE p = K -> corner \in KingSet[s]
                         [] p = N -> corner \in KnightSet[s]
                         [] p = B -> corner \in SlideAttacks({}, s, DiagDirs)
                         [] p = R -> corner \in SlideAttacks({}, s, OrthDirs)
                         [] p = Q -> corner \in SlideAttacks({}, s, AllDirs)
                         [] p = P -> Abs(FileOf(s) - FileOf(corner)) = 1 /\ Abs(RankOf(s) - RankOf(corner)) = 1)}
RookCapBuild(x, y) ==
  LET corner == Corners[x[1]]
      victim == IF RankOf(corner) = 0 THEN Black ELSE White        \* owner of the corner rook
      side == Other(victim)
      r == HomeRank(victim)
      c0 == Place(Place(EmptyCells, MkSq(4, r), MkCell(victim, K)), corner, MkCell(victim, R))
      c1 == IF y[3] = 1 THEN Place(c0, MkSq(7 - FileOf(corner), r), MkCell(victim, R)) ELSE c0
      cr == RightsOfSet({<<victim, sd>> : sd \in {sd \in {0, 1} : c1[RookHome(victim, sd)] = MkCell(victim, R)}})
      c2 == IF c1[y[2]] # 0 THEN EmptyCells ELSE Place(c1, y[2], MkCell(side, y[1]))
  IN IF y[1] = K THEN MkPos(c2, side, cr, -1, 0, 1) ELSE Park(c2, side, side, cr, -1, 0, 1)

(***************************************************************************)
(* F_EPCHK: an en-passant capture that GIVES (discovered) check: own       *)
(* slider, enemy king anywhere.                                            *)
(***************************************************************************)
EpChkCoarse == EpCoarse
EpChkFine(x) == Sq \X Sq \X SliderPieces
EpChkBuild(x, y) ==
  LET side == x[1]  vf == x[2]  opp == Other(side)
      r == EpSrcRank(side)
      victim == MkSq(vf, r)
      c0 == Place(EmptyCells, victim, MkCell(opp, P))
      c1 == IF x[3] = 1 /\ vf > 0 THEN Place(c0, MkSq(vf - 1, r), MkCell(side, P)) ELSE c0
      c2 == IF x[4] = 1 /\ vf < 7 THEN Place(c1, MkSq(vf + 1, r), MkCell(side, P)) ELSE c1
      eksq == y[1]  ssq == y[2]
  IN IF c2[eksq] # 0 \/ c2[ssq] # 0 \/ eksq = ssq \/ eksq = Shift(victim, 0, Fwd(side)) \/ ssq = Shift(victim, 0, Fwd(side))
     THEN MkPos(EmptyCells, side, 0, -1, 0, 1)
     ELSE Park(Place(Place(c2, eksq, MkCell(opp, K)), ssq, MkCell(side, y[3])), side, side, 0, victim, 0, 1)

(***************************************************************************)
(* F_EPX / F_EPCHKX: the members of F_EP in which an e.p. capture is       *)
(* pseudo-legal but ILLEGAL (it exposes the mover's king), and the members *)
(* of F_EPCHK in which an e.p. capture GIVES CHECK.  The filter is part of *)
(* the family (evaluated by TLC while enumerating), so that samples        *)
(* consist of the interesting geometries only.                             *)
(***************************************************************************)
EpxBuild(x, y) ==
  LET p == EpBuild(x, y) IN
  \* not in check now: the capture itself (removing two pawns from their lines) exposes the king
  IF IsValid(p) /\ ~InCheck(p) /\ (\E m \in PseudoLegal(p) : m[1] = KEnpassant /\ ~LeavesKingSafe(p, m)) THEN p
  ELSE MkPos(EmptyCells, 0, 0, -1, 0, 1)
EpChkxBuild(x, y) ==
  LET p == EpChkBuild(x, y) IN
  IF IsValid(p) /\ (\E m \in Legal(p) : m[1] = KEnpassant /\ InCheck(ApplyMove(p, m))) THEN p
  ELSE MkPos(EmptyCells, 0, 0, -1, 0, 1)

(***************************************************************************)
(* F_PINMATE: the side to move is in check, has NO legal move, and one of  *)
(* its own men (not the king) pseudo-legally attacks a checker - it is     *)
(* pinned.  "The checker can simply be taken" is false exactly here.       *)
(*   cornered king boxed in by two own pawns, an enemy knight giving       *)
(*   check, an own defender and an enemy slider anywhere (filtered).       *)
(***************************************************************************)
PinMateCoarse == {<<corner, side, dt>> \in {0, 7, 56, 63} \X {0, 1} \X {N, B, R, Q} : TRUE}
PinMateFine(x) ==
  LET k == x[1] IN
  {<<n, ds, es, et>> \in KnightSet[k] \X Sq \X Sq \X SliderPieces : ds # es /\ ds # n /\ es # n /\ ds # k /\ es # k}
PinMateBuild(x, y) ==
  LET k == x[1]  side == x[2]  opp == Other(side)
      df == IF FileOf(k) = 0 THEN 1 ELSE -1
      dr == IF RankOf(k) = 0 THEN 1 ELSE -1
      \* the two squares "in front" of the cornered king along the board edge opposite to its home side
      p1 == Shift(k, 0, dr)  p2 == Shift(k, df, dr)
      okPawn == RankOf(p1) \notin {0, 7}
      c0 == Place(Place(Place(EmptyCells, k, MkCell(side, K)), p1, MkCell(side, IF okPawn THEN P ELSE N)),
                  p2, MkCell(side, IF okPawn THEN P ELSE N))
  IN IF y[1] \in {p1, p2} \/ y[2] \in {p1, p2} \/ y[3] \in {p1, p2}
     THEN MkPos(EmptyCells, side, 0, -1, 0, 1)
     ELSE LET c1 == Place(Place(Place(c0, y[1], MkCell(opp, N)), y[2], MkCell(side, x[3])), y[3], MkCell(opp, y[4]))
              pos == Park(c1, opp, side, 0, -1, 0, 1)
          IN IF IsValid(pos) /\ InCheck(pos) /\ Legal(pos) = {}
                /\ (\E m \in PseudoLegal(pos) : m[4] \in Checkers(pos) /\ PieceOf(m[2]) # K)
             THEN pos ELSE MkPos(EmptyCells, side, 0, -1, 0, 1)

(***************************************************************************)
(* F_DBLCHK: a move that gives DOUBLE check (by discovery), mate or not:   *)
(* back-rank king behind a pawn shield, an enemy slider on the rank with   *)
(* an enemy knight / bishop between them that can move away with check.    *)
(* The emitted position is the one BEFORE that move (the mover to play).   *)
(***************************************************************************)
DblCoarse == {<<ks, side, shield>> \in {1, 2, 5, 6, 57, 58, 61, 62} \X {0, 1} \X {0, 1} : TRUE}
DblFine(x) ==
  LET k == x[1]  rank == {q \in Sq : RankOf(q) = RankOf(k) /\ q # k} IN
  {<<ss, st, bs, bt>> \in rank \X {R, Q} \X rank \X {N, B} : bs \in Between(ss, k)}
DblBuild(x, y) ==
  LET k == x[1]  victim == Other(x[2])  mover == x[2]
      dr == IF RankOf(k) = 0 THEN 1 ELSE -1
      sh == {Shift(k, -1, dr), Shift(k, 0, dr), Shift(k, 1, dr)} \ {-1}
      RECURSIVE PutAll(_, _)
      PutAll(c, S) == IF S = {} THEN c ELSE LET q == CHOOSE q \in S : TRUE IN PutAll(Place(c, q, MkCell(victim, P)), S \ {q})
      c0 == Place(EmptyCells, k, MkCell(victim, K))
      c1 == IF x[3] = 1 THEN PutAll(c0, sh) ELSE c0
      c2 == Place(Place(c1, y[1], MkCell(mover, y[2])), y[3], MkCell(mover, y[4]))
      pos == Park(c2, mover, mover, 0, -1, 0, 1)
  IN IF IsValid(pos) /\ (\E m \in Legal(pos) : m[3] = y[3] /\ Cardinality(Checkers(ApplyMove(pos, m))) >= 2)
     THEN pos ELSE MkPos(EmptyCells, mover, 0, -1, 0, 1)

(***************************************************************************)
(* F_DBLPIN: two own men pinned at once on two different rays of the king. *)
(***************************************************************************)
DirSeq == <<<<0, 1>>, <<0, -1>>, <<1, 0>>, <<-1, 0>>, <<1, 1>>, <<1, -1>>, <<-1, 1>>, <<-1, -1>>>>
DblPinCoarse == {<<k, a, b>> \in Sq \X (1..8) \X (1..8) : a < b /\ RayLen(k, DirSeq[a]) >= 2 /\ RayLen(k, DirSeq[b]) >= 2}
DblPinFine(x) ==
  {<<i1, j1, t1, i2, j2, t2, side>> \in (1..3) \X (2..5) \X {N, B, R, Q} \X (1..3) \X (2..5) \X {N, B, R, Q} \X {0, 1} :
      i1 < j1 /\ j1 <= RayLen(x[1], DirSeq[x[2]]) /\ i2 < j2 /\ j2 <= RayLen(x[1], DirSeq[x[3]])}
DblPinBuild(x, y) ==
  LET k == x[1]  r1 == RayTbl[k][DirSeq[x[2]]]  r2 == RayTbl[k][DirSeq[x[3]]]
      side == y[7]  opp == Other(side)
      pinner(a) == IF a <= 4 THEN R ELSE B
      c == Place(Place(Place(Place(Place(EmptyCells, k, MkCell(side, K)),
                 r1[y[1]], MkCell(side, y[3])), r1[y[2]], MkCell(opp, pinner(x[2]))),
                 r2[y[4]], MkCell(side, y[6])), r2[y[5]], MkCell(opp, IF y[4] = 1 THEN Q ELSE pinner(x[3])))
  IN Park(c, opp, side, 0, -1, 0, 1)

(***************************************************************************)
(* F_ONLYDBL: the ONLY legal moves are double pawn steps (interposition).  *)
(***************************************************************************)
OnlyDblCoarse == {<<side, kf>> \in {0, 1} \X (0..7) : TRUE}
OnlyDblFine(x) == {<<pf, cf, gf>> \in (0..7) \X (0..7) \X (0..7) : pf # x[2] /\ cf # x[2] /\ cf # pf}
OnlyDblBuild(x, y) ==
  LET side == x[1]  opp == Other(side)
      r4 == DoubleDstRank(side)                 \* the rank the double step lands on = the king's rank
      rs == PawnStartRank(side)
      k == MkSq(x[2], r4)
      c == Place(Place(Place(Place(Place(EmptyCells, k, MkCell(side, K)),
                 MkSq(y[2], r4), MkCell(opp, R)),                                  \* the checker on the rank
                 MkSq(y[1], rs), MkCell(side, P)),                                 \* the pawn that may interpose
                 MkSq(y[3], r4 - 1), MkCell(opp, R)), MkSq(y[3], r4 + 1), MkCell(opp, R))   \* guards of both neighbour ranks
      pos == Park(c, opp, side, 0, -1, 0, 1)
  IN IF IsValid(pos) /\ Legal(pos) # {} /\ (\A m \in Legal(pos) : m[1] = KDouble) THEN pos
     ELSE MkPos(EmptyCells, side, 0, -1, 0, 1)

(***************************************************************************)
(* F_ONLYPROMO: every legal move is a promotion by a straight push (the    *)
(* mover's king has no move; in check or not) - filter.  Coarse: side x    *)
(* own king square; fine: pawn file x two enemy men (Q R) on any squares.  *)
(***************************************************************************)
OnlyPromoCoarse == {<<side, k>> \in {0, 1} \X Sq : TRUE}
OnlyPromoFine(x) == {<<pf, q, r>> \in (0..7) \X Sq \X Sq : q # r /\ q # x[2] /\ r # x[2]}
OnlyPromoBuild(x, y) ==
  LET side == x[1]  opp == Other(side)  k == x[2]
      src == MkSq(y[1], PromoSrcRank(side))  dst == MkSq(y[1], PromoDstRank(side))
      bad == MkPos(EmptyCells, side, 0, -1, 0, 1)
  IN IF Cardinality({k, src, dst, y[2], y[3]}) < 5 THEN bad
     ELSE LET c == Place(Place(Place(Place(EmptyCells, k, MkCell(side, K)), src, MkCell(side, P)),
                              y[2], MkCell(opp, Q)), y[3], MkCell(opp, R))
              pos == Park(c, opp, side, 0, -1, 0, 1)
          IN IF IsValid(pos) /\ Legal(pos) # {} /\ (\A m \in Legal(pos) : m[1] \in PromoKinds /\ FileOf(m[3]) = FileOf(m[4]))
             THEN pos ELSE bad

(***************************************************************************)
(* F_EPEVADE: the mover is IN CHECK from the pawn that has just made its   *)
(* double step, and may capture it en passant (the capture lands behind    *)
(* the checker, not on it).  Coarse as F_EP; fine: which of the two        *)
(* attacked squares the king stands on x one more enemy man anywhere.      *)
(* F_ONLYEPCHK (filter): with an enemy queen and rook instead, the e.p.    *)
(* capture is the ONLY legal reply.  F_ONLYEPCHKPRE: the position before   *)
(* that double step (its SAN must end in "+", not "#").                    *)
(***************************************************************************)
EpEvadeBase(x, kside) ==
  LET side == x[1]  vf == x[2]  opp == Other(side)  r == EpSrcRank(side)
      victim == MkSq(vf, r)
      c0 == Place(EmptyCells, victim, MkCell(opp, P))
      c1 == IF x[3] = 1 /\ vf > 0 THEN Place(c0, MkSq(vf - 1, r), MkCell(side, P)) ELSE c0
      c2 == IF x[4] = 1 /\ vf < 7 THEN Place(c1, MkSq(vf + 1, r), MkCell(side, P)) ELSE c1
      ksq == Shift(victim, kside, Fwd(opp))
  IN IF ksq = -1 \/ c2[ksq] # 0 THEN EmptyCells ELSE Place(c2, ksq, MkCell(side, K))
EpEvadeCoarse == EpCoarse
EpEvadeFine(x) == {-1, 1} \X Sq \X {N, B, R, Q, P}
EpEvadeBuild(x, y) ==
  LET side == x[1]  opp == Other(side)  victim == MkSq(x[2], EpSrcRank(side))
      c == EpEvadeBase(x, y[1])  esq == y[2]
  IN IF c = EmptyCells \/ c[esq] # 0 \/ esq = Shift(victim, 0, Fwd(side)) \/ esq = Shift(victim, 0, 2 * Fwd(side))
        \/ (y[3] = P /\ RankOf(esq) \in {0, 7})
     THEN MkPos(EmptyCells, side, 0, -1, 0, 1)
     ELSE Park(Place(c, esq, MkCell(opp, y[3])), opp, side, 0, victim, 0, 1)

OnlyEpChkCoarse == EpCoarse
OnlyEpChkFine(x) == {<<ks, q, r>> \in {-1, 1} \X Sq \X Sq : q # r}
OnlyEpChkBuild(x, y) ==
  LET side == x[1]  opp == Other(side)  victim == MkSq(x[2], EpSrcRank(side))
      c == EpEvadeBase(x, y[1])
      passed == Shift(victim, 0, Fwd(side))  origin == Shift(victim, 0, 2 * Fwd(side))
      bad == MkPos(EmptyCells, side, 0, -1, 0, 1)
  IN IF c = EmptyCells \/ c[y[2]] # 0 \/ c[y[3]] # 0 \/ {y[2], y[3]} \cap {passed, origin} # {} THEN bad
     ELSE LET pos == Park(Place(Place(c, y[2], MkCell(opp, Q)), y[3], MkCell(opp, R)), opp, side, 0, victim, 0, 1)
          IN IF IsValid(pos) /\ Legal(pos) # {} /\ (\A m \in Legal(pos) : m[1] = KEnpassant) THEN pos ELSE bad
OnlyEpChkPreBuild(x, y) ==
  LET pos == OnlyEpChkBuild(x, y)  side == x[1]  opp == Other(side)
      victim == MkSq(x[2], EpSrcRank(side))  origin == Shift(victim, 0, 2 * Fwd(side))
  IN IF pos.cells = EmptyCells THEN pos
     ELSE MkPos(Place(Place(pos.cells, victim, 0), origin, MkCell(opp, P)), opp, 0, -1, 0, 1)

(***************************************************************************)
(* F_ONLYCAP (filter): the mover is in check from an enemy queen standing  *)
(* next to his king and guarded by an enemy slider behind it on the same   *)
(* line; every legal move is the capture of that queen by a knight (after  *)
(* which the guard's line is blocked again).  One more enemy queen takes   *)
(* squares away.                                                           *)
(***************************************************************************)
OnlyCapCoarse == {<<k, a>> \in Sq \X (1..8) : RayLen(k, DirSeq[a]) >= 2}
OnlyCapFine(x) ==
  LET ray == RayTbl[x[1]][DirSeq[x[2]]] IN
  {<<j, nsq, side, q>> \in (2..4) \X Sq \X {0, 1} \X Sq :
      j <= Len(ray) /\ nsq \in KnightSet[ray[1]] /\ nsq # x[1] /\ q \notin {x[1], nsq} /\ q \notin {ray[m] : m \in 1..j}}
OnlyCapBuild(x, y) ==
  LET k == x[1]  ray == RayTbl[k][DirSeq[x[2]]]  side == y[3]  opp == Other(side)
      back == IF x[2] <= 4 THEN R ELSE B
      c == Place(Place(Place(Place(Place(EmptyCells, k, MkCell(side, K)), ray[1], MkCell(opp, Q)),
                 ray[y[1]], MkCell(opp, back)), y[2], MkCell(side, N)), y[4], MkCell(opp, Q))
      pos == Park(c, opp, side, 0, -1, 0, 1)
  IN IF IsValid(pos) /\ Legal(pos) # {} /\ (\A m \in Legal(pos) : m[4] = ray[1] /\ PieceOf(m[2]) # K) THEN pos
     ELSE MkPos(EmptyCells, side, 0, -1, 0, 1)

(***************************************************************************)
(* F_EDGESTALE (filter): NO legal move (stalemate or mate) while an e.p.   *)
(* mark stands on the a- or h-file and the mover owns a blocked pawn on    *)
(* any square - including the squares an unmasked shift of the mark wraps  *)
(* round to.                                                               *)
(***************************************************************************)
EdgeStaleCoarse == {<<side, corner, vf>> \in {0, 1} \X {0, 7, 56, 63} \X {0, 7} : TRUE}
EdgeStaleFine(x) == {<<q, p>> \in Sq \X {s \in Sq : RankOf(s) \in 1..6} : q # p}
EdgeStaleBuild(x, y) ==
  LET side == x[1]  opp == Other(side)  corner == x[2]
      victim == MkSq(x[3], EpSrcRank(side))  passed == Shift(victim, 0, Fwd(side))  origin == Shift(victim, 0, 2 * Fwd(side))
      own == y[2]  blk == Shift(own, 0, Fwd(side))
      bad == MkPos(EmptyCells, side, 0, -1, 0, 1)
  IN IF blk = -1 \/ RankOf(blk) \in {0, 7} \/ Cardinality({corner, victim, passed, origin, own, blk, y[1]}) < 7 THEN bad
     ELSE LET c == Place(Place(Place(Place(Place(EmptyCells, corner, MkCell(side, K)), victim, MkCell(opp, P)),
                              own, MkCell(side, P)), blk, MkCell(opp, P)), y[1], MkCell(opp, Q))
              pos == Park(c, opp, side, 0, victim, 0, 1)
          IN IF IsValid(pos) /\ Legal(pos) = {} THEN pos ELSE bad

(***************************************************************************)
(* F_EPRANK2: an e.p. capture is available, the mover's king stands on the *)
(* same rank as the two pawns, and TWO enemy rooks/queens stand on that     *)
(* rank too (the pinning one need not be the first one a scan meets).      *)
(***************************************************************************)
EpRank2Coarse == EpCoarse
EpRank2Fine(x) == {<<kf, f1, f2, t1, t2>> \in (0..7) \X (0..7) \X (0..7) \X {R, Q} \X {R, Q} : f1 < f2 /\ kf \notin {f1, f2}}
EpRank2Build(x, y) ==
  LET side == x[1]  vf == x[2]  opp == Other(side)  r == EpSrcRank(side)
      victim == MkSq(vf, r)
      c0 == Place(EmptyCells, victim, MkCell(opp, P))
      c1 == IF x[3] = 1 /\ vf > 0 THEN Place(c0, MkSq(vf - 1, r), MkCell(side, P)) ELSE c0
      c2 == IF x[4] = 1 /\ vf < 7 THEN Place(c1, MkSq(vf + 1, r), MkCell(side, P)) ELSE c1
      k == MkSq(y[1], r)  a == MkSq(y[2], r)  b == MkSq(y[3], r)
  IN IF c2[k] # 0 \/ c2[a] # 0 \/ c2[b] # 0 THEN MkPos(EmptyCells, side, 0, -1, 0, 1)
     ELSE Park(Place(Place(Place(c2, k, MkCell(side, K)), a, MkCell(opp, y[4])), b, MkCell(opp, y[5])), opp, side, 0, victim, 0, 1)

(***************************************************************************)
(* F_PROMOEP: a promotion is available while an e.p. mark is pending.      *)
(***************************************************************************)
PromoEpCoarse == {<<side, f>> \in {0, 1} \X (0..7) : TRUE}
PromoEpFine(x) == {<<vf, left, right>> \in (0..7) \X {0, 1} \X {0, 1} : TRUE}
PromoEpBuild(x, y) ==
  LET side == x[1]  opp == Other(side)  f == x[2]
      src == MkSq(f, PromoSrcRank(side))  dr == PromoDstRank(side)
      victim == MkSq(y[1], EpSrcRank(side))
      c0 == Place(Place(EmptyCells, src, MkCell(side, P)), victim, MkCell(opp, P))
      c1 == IF y[2] = 1 /\ f > 0 THEN Place(c0, MkSq(f - 1, dr), MkCell(opp, N)) ELSE c0
      c2 == IF y[3] = 1 /\ f < 7 THEN Place(c1, MkSq(f + 1, dr), MkCell(opp, R)) ELSE c1
      p1 == Park(c2, side, side, 0, victim, 0, 1)
  IN Park(p1.cells, opp, side, 0, victim, 0, 1)

(***************************************************************************)
(* F_CASTLEEP: castling is available while an e.p. mark is pending (the    *)
(* opponent has just made a double step).                                  *)
(***************************************************************************)
CastleEpCoarse == {<<side, ks, qs>> \in {0, 1} \X Bools \X Bools : ks + qs >= 1}
CastleEpFine(x) == {<<vf, cap>> \in (0..7) \X {0, 1} : TRUE}
CastleEpBuild(x, y) ==
  LET side == x[1]  opp == Other(side)  r == HomeRank(side)
      c0 == Place(Place(Place(EmptyCells, MkSq(4, r), MkCell(side, K)), MkSq(0, r), MkCell(side, R)), MkSq(7, r), MkCell(side, R))
      cr == RightsOfSet((IF x[2] = 1 THEN {<<side, SideK>>} ELSE {}) \cup (IF x[3] = 1 THEN {<<side, SideQ>>} ELSE {}))
      victim == MkSq(y[1], EpSrcRank(side))
      c1 == Place(c0, victim, MkCell(opp, P))
      nb == IF y[1] > 0 THEN MkSq(y[1] - 1, EpSrcRank(side)) ELSE MkSq(1, EpSrcRank(side))
      c2 == IF y[2] = 1 THEN Place(c1, nb, MkCell(side, P)) ELSE c1
  IN Park(c2, opp, side, cr, victim, 0, 1)

(***************************************************************************)
(* F_BATTERY: an enemy man on a line towards the king, backed by an enemy  *)
(* slider behind it on the same line, and an own knight that can capture   *)
(* the front man (the capture blocks the line again: it is LEGAL).         *)
(***************************************************************************)
BatteryCoarse == {<<k, a>> \in Sq \X (1..8) : RayLen(k, DirSeq[a]) >= 2}
BatteryFine(x) ==
  LET ray == RayTbl[x[1]][DirSeq[x[2]]] IN
  {<<i, j, ft, nsq, side>> \in (1..6) \X (2..7) \X {N, B, R, Q, P} \X Sq \X {0, 1} :
      i < j /\ j <= Len(ray) /\ nsq \in KnightSet[ray[i]] /\ nsq # x[1] /\ nsq \notin {ray[m] : m \in 1..j}}
BatteryBuild(x, y) ==
  LET k == x[1]  ray == RayTbl[k][DirSeq[x[2]]]  side == y[5]  opp == Other(side)
      back == IF x[2] <= 4 THEN R ELSE B
  IN IF y[3] = P /\ RankOf(ray[y[1]]) \in {0, 7} THEN MkPos(EmptyCells, side, 0, -1, 0, 1)
     ELSE Park(Place(Place(Place(Place(EmptyCells, k, MkCell(side, K)), ray[y[1]], MkCell(opp, y[3])),
                     ray[y[2]], MkCell(opp, back)), y[4], MkCell(side, N)), opp, side, 0, -1, 0, 1)

(***************************************************************************)
(* F_EDGEPAWN: an enemy pawn on the a- or h-file and the mover's king on   *)
(* every square (whole-set shifts that forget a file mask wrap here).      *)
(***************************************************************************)
EdgePawnCoarse == {<<side, f>> \in {0, 1} \X {0, 7} : TRUE}
EdgePawnFine(x) == {<<r, ksq>> \in (1..6) \X Sq : ksq # MkSq(x[2], r)}
EdgePawnBuild(x, y) ==
  LET side == x[1]  opp == Other(side) IN
  Park(Place(Place(EmptyCells, MkSq(x[2], y[1]), MkCell(opp, P)), y[2], MkCell(side, K)), opp, side, 0, -1, 0, 1)

(***************************************************************************)
(* F_STALEMIN: a cornered king with NO legal move (stalemate or mate)      *)
(* facing king + one minor piece or queen: forced outcomes that coincide   *)
(* with insufficient material or with clock thresholds.                    *)
(***************************************************************************)
StaleCoarse == {<<corner, side, hm>> \in {0, 7, 56, 63} \X {0, 1} \X {0, 100, 150} : TRUE}
StaleFine(x) ==
  LET near == {q \in Sq : Abs(FileOf(q) - FileOf(x[1])) <= 2 /\ Abs(RankOf(q) - RankOf(x[1])) <= 2 /\ q # x[1]} IN
  {<<ek, p, ps>> \in near \X {N, B, Q} \X Sq : ps # ek /\ ps # x[1]}
StaleBuild(x, y) ==
  LET side == x[2]  opp == Other(side)
      c == Place(Place(Place(EmptyCells, x[1], MkCell(side, K)), y[1], MkCell(opp, K)), y[3], MkCell(opp, y[2]))
      pos == MkPos(c, side, 0, -1, x[3], 1)
  IN IF IsValid(pos) /\ Legal(pos) = {} THEN pos ELSE MkPos(EmptyCells, side, 0, -1, 0, 1)

(***************************************************************************)
(* F_MULTICHK: the king of the side to move attacked by THREE men at once  *)
(* (a knight, a diagonal slider and an orthogonal slider): unreachable in  *)
(* play, valid for the library.                                            *)
(***************************************************************************)
MultiCoarse == {<<k, side>> \in Sq \X {0, 1} : TRUE}
MultiFine(x) ==
  LET k == x[1] IN
  {<<n, d, dp, o, op>> \in KnightSet[k] \X SlideAttacks({}, k, DiagDirs) \X {B, Q}
                           \X SlideAttacks({}, k, OrthDirs) \X {R, Q} : TRUE}
MultiBuild(x, y) ==
  LET k == x[1]  side == x[2]  opp == Other(side)
      c == Place(Place(Place(Place(EmptyCells, k, MkCell(side, K)), y[1], MkCell(opp, N)), y[2], MkCell(opp, y[3])),
                 y[4], MkCell(opp, y[5]))
  IN Park(c, opp, side, 0, -1, 0, 1)

(***************************************************************************)
(* F_RAW: raw boards at the validity boundary (emitted whether valid or    *)
(* not): a valid skeleton with one disturbance.                            *)
(*   kind 0 extra king (colour a on square b)      kind 1 king of colour a removed                 *)
(*   kind 2 pawn of colour a on square b of rank 1/8   kind 3 e.p. mark on square b, side a       *)
(*   kind 4 rights set b after removing the man on home square index c (0 none)                    *)
(*   kind 5 colour a gets b extra knights (reaching 15..18 men)                                    *)
(*   kind 6 a man of type c, colour = side to move, on square b (may attack the waiting king)      *)
(*   kind 7 home squares e/a/h of colour a filled with every combination c of {empty, own rook,    *)
(*          own king} (3^3), rights set b                                                          *)
(*   kind 9 the king of colour a replaced by a king of the OTHER colour (two kings against none)   *)
(*   kind 8 e.p. structure of skeleton 2/3 with a man of cell value b on the ORIGIN square of the  *)
(*          double step (two ranks behind the marked pawn) or on the square passed over (c = 1)    *)
(***************************************************************************)
Skeleton(i) ==
  CASE i = 1 -> MkPos(Place(Place(Place(Place(Place(Place(EmptyCells, 60, MkCell(White, K)), 4, MkCell(Black, K)),
                                  56, MkCell(White, R)), 63, MkCell(White, R)), 0, MkCell(Black, R)), 7, MkCell(Black, R)),
                      White, 15, -1, 3, 9)
    [] i = 2 -> MkPos(Place(Place(Place(Place(Place(Place(EmptyCells, 62, MkCell(White, K)), 20, MkCell(Black, K)),
                                  28, MkCell(Black, P)), 27, MkCell(White, P)), 35, MkCell(White, P)), 36, MkCell(Black, P)),
                      White, 0, 28, 0, 1)
    [] i = 3 -> MkPos(Place(Place(Place(Place(Place(Place(EmptyCells, 62, MkCell(White, K)), 20, MkCell(Black, K)),
                                  28, MkCell(Black, P)), 27, MkCell(White, P)), 35, MkCell(White, P)), 36, MkCell(Black, P)),
                      Black, 0, 35, 0, 1)
HomeSquares == <<-1, 0, 4, 7, 56, 60, 63>>
RawCoarse == {<<i, k>> \in (1..3) \X (0..9) : TRUE}
RawFine(x) ==
  LET k == x[2] IN
  CASE k = 0 -> {<<a, b, 0>> : a \in {0, 1}, b \in Sq}
    [] k = 1 -> {<<a, 0, 0>> : a \in {0, 1}}
    [] k = 2 -> {<<a, b, 0>> : a \in {0, 1}, b \in {q \in Sq : RankOf(q) \in {0, 7}}}
    [] k = 3 -> {<<a, b, 0>> : a \in {0, 1}, b \in Sq}
    [] k = 4 -> {<<0, b, c>> : b \in 0..15, c \in 1..7}
    [] k = 5 -> {<<a, b, 0>> : a \in {0, 1}, b \in 11..16}
    [] k = 6 -> {<<0, b, c>> : b \in Sq, c \in {P, N, B, R, Q}}
    [] k = 7 -> {<<a, b, c>> : a \in {0, 1}, b \in 0..15, c \in 0..26}
    [] k = 8 -> {<<0, b, c>> : b \in 0..12, c \in {0, 1}}
    [] k = 9 -> {<<a, b, 0>> : a \in {0, 1}, b \in {0, 1}}
RECURSIVE AddKnights(_, _, _, _)
AddKnights(c, color, n, q) ==
  IF n = 0 \/ q > 55 THEN c
  ELSE IF c[q] = 0 THEN AddKnights(Place(c, q, MkCell(color, N)), color, n - 1, q + 1) ELSE AddKnights(c, color, n, q + 1)
RawBuild(x, y) ==
  LET sk == Skeleton(x[1])  k == x[2]  c == sk.cells IN
  CASE k = 0 -> [sk EXCEPT !.cells = Place(c, y[2], MkCell(y[1], K))]
    [] k = 1 -> [sk EXCEPT !.cells = [q \in Sq |-> IF c[q] = MkCell(y[1], K) THEN 0 ELSE c[q]]]
    [] k = 2 -> [sk EXCEPT !.cells = Place(c, y[2], MkCell(y[1], P))]
    [] k = 3 -> [sk EXCEPT !.side = y[1], !.ep = y[2]]
    [] k = 4 -> [sk EXCEPT !.castling = y[2],
                           !.cells = IF HomeSquares[y[3]] = -1 THEN c ELSE Place(c, HomeSquares[y[3]], 0)]
    [] k = 5 -> [sk EXCEPT !.cells = AddKnights(c, y[1], y[2], 8)]
    [] k = 6 -> [sk EXCEPT !.cells = IF c[y[2]] # 0 \/ (y[3] = P /\ RankOf(y[2]) \in {0, 7}) THEN c
                                      ELSE Place(c, y[2], MkCell(sk.side, y[3]))]
    [] k = 7 -> LET col == y[1]  r == HomeRank(col)
                    what(d) == IF d = 0 THEN 0 ELSE IF d = 1 THEN MkCell(col, R) ELSE MkCell(col, K)
                    \* remove that colour's king from the skeleton, then fill e / a / h
                    c0 == [q \in Sq |-> IF c[q] = MkCell(col, K) \/ RankOf(q) = r THEN 0 ELSE c[q]]
                    c1 == Place(Place(Place(c0, MkSq(4, r), what(y[3] % 3)), MkSq(0, r), what((y[3] \div 3) % 3)),
                                MkSq(7, r), what(y[3] \div 9))
                    \* if no king was placed on the home squares, park one
                    c2 == IF \E q \in Sq : c1[q] = MkCell(col, K) THEN c1 ELSE ParkCells(c1, col)
                IN [sk EXCEPT !.cells = c2, !.castling = y[2]]
    [] k = 9 -> [sk EXCEPT !.cells = [q \in Sq |-> IF c[q] = MkCell(y[1], K) THEN MkCell(Other(y[1]), K) ELSE c[q]],
                           !.side = y[2]]
    [] k = 8 -> IF sk.ep = -1 THEN sk
                ELSE LET back == Shift(sk.ep, 0, (IF y[3] = 1 THEN 1 ELSE 2) * Fwd(sk.side)) IN
                     IF back = -1 \/ c[back] \in {MkCell(0, K), MkCell(1, K)} THEN sk
                     ELSE [sk EXCEPT !.cells = Place(c, back, y[2])]

FamilyNames == {"EP", "EPEDGE", "ONLYEP", "PIN", "CASTLE", "PROMO", "MAT", "CHK", "AMBIG", "RAW", "MINOR", "MULTICHK", "ROOKCAP", "EPCHK", "STALEMIN", "EPX", "EPCHKX", "PINMATE", "DBLCHK", "DBLPIN", "ONLYDBL", "PROMOEP", "CASTLEEP", "BATTERY", "EDGEPAWN", "ONLYPROMO", "EPEVADE", "ONLYEPCHK", "ONLYEPCHKPRE", "ONLYCAP", "EDGESTALE", "EPRANK2"}
Coarse(f) ==
  CASE f = "EP" -> EpCoarse [] f = "EPEDGE" -> EdgeCoarse [] f = "ONLYEP" -> OnlyEpCoarse
    [] f = "PIN" -> PinCoarse [] f = "CASTLE" -> CastleCoarse [] f = "PROMO" -> PromoCoarse
    [] f = "MAT" -> MatCoarse [] f = "CHK" -> ChkCoarse [] f = "AMBIG" -> AmbigCoarse [] f = "RAW" -> RawCoarse [] f = "MINOR" -> MinorCoarse [] f = "MULTICHK" -> MultiCoarse [] f = "ROOKCAP" -> RookCapCoarse [] f = "EPCHK" -> EpChkCoarse [] f = "STALEMIN" -> StaleCoarse [] f = "EPX" -> EpCoarse [] f = "EPCHKX" -> EpChkCoarse [] f = "PINMATE" -> PinMateCoarse [] f = "DBLCHK" -> DblCoarse [] f = "DBLPIN" -> DblPinCoarse [] f = "ONLYDBL" -> OnlyDblCoarse [] f = "PROMOEP" -> PromoEpCoarse [] f = "CASTLEEP" -> CastleEpCoarse [] f = "BATTERY" -> BatteryCoarse [] f = "EDGEPAWN" -> EdgePawnCoarse [] f = "ONLYPROMO" -> OnlyPromoCoarse [] f = "EPEVADE" -> EpEvadeCoarse [] f \in {"ONLYEPCHK", "ONLYEPCHKPRE"} -> OnlyEpChkCoarse [] f = "ONLYCAP" -> OnlyCapCoarse [] f = "EDGESTALE" -> EdgeStaleCoarse [] f = "EPRANK2" -> EpRank2Coarse
Fine(f, x) ==
  CASE f = "EP" -> EpFine(x) [] f = "EPEDGE" -> EdgeFine(x) [] f = "ONLYEP" -> OnlyEpFine(x)
    [] f = "PIN" -> PinFine(x) [] f = "CASTLE" -> CastleFine(x) [] f = "PROMO" -> PromoFine(x)
    [] f = "MAT" -> MatFine(x) [] f = "CHK" -> ChkFine(x) [] f = "AMBIG" -> AmbigFine(x) [] f = "RAW" -> RawFine(x) [] f = "MINOR" -> MinorFine(x) [] f = "MULTICHK" -> MultiFine(x) [] f = "ROOKCAP" -> RookCapFine(x) [] f = "EPCHK" -> EpChkFine(x) [] f = "STALEMIN" -> StaleFine(x) [] f = "EPX" -> EpFine(x) [] f = "EPCHKX" -> EpChkFine(x) [] f = "PINMATE" -> PinMateFine(x) [] f = "DBLCHK" -> DblFine(x) [] f = "DBLPIN" -> DblPinFine(x) [] f = "ONLYDBL" -> OnlyDblFine(x) [] f = "PROMOEP" -> PromoEpFine(x) [] f = "CASTLEEP" -> CastleEpFine(x) [] f = "BATTERY" -> BatteryFine(x) [] f = "EDGEPAWN" -> EdgePawnFine(x) [] f = "ONLYPROMO" -> OnlyPromoFine(x) [] f = "EPEVADE" -> EpEvadeFine(x) [] f \in {"ONLYEPCHK", "ONLYEPCHKPRE"} -> OnlyEpChkFine(x) [] f = "ONLYCAP" -> OnlyCapFine(x) [] f = "EDGESTALE" -> EdgeStaleFine(x) [] f = "EPRANK2" -> EpRank2Fine(x)
Build(f, x, y) ==
  CASE f = "EP" -> EpBuild(x, y) [] f = "EPEDGE" -> EdgeBuild(x, y) [] f = "ONLYEP" -> OnlyEpBuild(x, y)
    [] f = "PIN" -> PinBuild(x, y) [] f = "CASTLE" -> CastleBuild(x, y) [] f = "PROMO" -> PromoBuild(x, y)
    [] f = "MAT" -> MatBuild(x, y) [] f = "CHK" -> ChkBuild(x, y) [] f = "AMBIG" -> AmbigBuild(x, y) [] f = "RAW" -> RawBuild(x, y) [] f = "MINOR" -> MinorBuild(x, y) [] f = "MULTICHK" -> MultiBuild(x, y) [] f = "ROOKCAP" -> RookCapBuild(x, y) [] f = "EPCHK" -> EpChkBuild(x, y) [] f = "STALEMIN" -> StaleBuild(x, y) [] f = "EPX" -> EpxBuild(x, y) [] f = "EPCHKX" -> EpChkxBuild(x, y) [] f = "PINMATE" -> PinMateBuild(x, y) [] f = "DBLCHK" -> DblBuild(x, y) [] f = "DBLPIN" -> DblPinBuild(x, y) [] f = "ONLYDBL" -> OnlyDblBuild(x, y) [] f = "PROMOEP" -> PromoEpBuild(x, y) [] f = "CASTLEEP" -> CastleEpBuild(x, y) [] f = "BATTERY" -> BatteryBuild(x, y) [] f = "EDGEPAWN" -> EdgePawnBuild(x, y) [] f = "ONLYPROMO" -> OnlyPromoBuild(x, y) [] f = "EPEVADE" -> EpEvadeBuild(x, y) [] f = "ONLYEPCHK" -> OnlyEpChkBuild(x, y) [] f = "ONLYEPCHKPRE" -> OnlyEpChkPreBuild(x, y) [] f = "ONLYCAP" -> OnlyCapBuild(x, y) [] f = "EDGESTALE" -> EdgeStaleBuild(x, y) [] f = "EPRANK2" -> EpRank2Build(x, y)
=============================================================================
