------------------------------ MODULE Geometry ------------------------------
(***************************************************************************)
(* Board geometry of an 8x8 chess board, written as plain arithmetic on    *)
(* files and ranks.  Deliberately NOT bitboards or lookup tables copied    *)
(* from the implementation: this module is part of the oracle.             *)
(*                                                                         *)
(* Square numbering is the library's: index = 8*rankIndex + file, where    *)
(* rankIndex 0 is the 8th rank (so a8 = 0, h8 = 7, a1 = 56, h1 = 63).      *)
(***************************************************************************)
EXTENDS Integers, Sequences, FiniteSets

Sq == 0..63
FileOf(s) == s % 8
RankOf(s) == s \div 8              \* 0 = rank 8 ... 7 = rank 1
MkSq(f, r) == 8 * r + f
OnBoard(f, r) == f \in 0..7 /\ r \in 0..7

\* Square reached from s by (df, dr) in (file, rankIndex) steps, or -1 if off the board
Shift(s, df, dr) ==
  IF OnBoard(FileOf(s) + df, RankOf(s) + dr)
  THEN MkSq(FileOf(s) + df, RankOf(s) + dr)
  ELSE -1

Abs(x) == IF x < 0 THEN -x ELSE x
SetMin(S) == CHOOSE x \in S : \A y \in S : x <= y
SetMax(S) == CHOOSE x \in S : \A y \in S : x >= y

OrthDirs == {<<0, 1>>, <<0, -1>>, <<1, 0>>, <<-1, 0>>}
DiagDirs == {<<1, 1>>, <<1, -1>>, <<-1, 1>>, <<-1, -1>>}
AllDirs  == OrthDirs \cup DiagDirs

\* Number of steps one can take from s in direction d before leaving the board
RayLen(s, d) == Cardinality({k \in 1..7 : OnBoard(FileOf(s) + k * d[1], RankOf(s) + k * d[2])})

\* The squares from s (exclusive) in direction d, in order, as a sequence
Ray(s, d) == [i \in 1..RayLen(s, d) |-> Shift(s, i * d[1], i * d[2])]

RayTbl == [s \in Sq |-> [d \in AllDirs |-> Ray(s, d)]]

\* Squares reached by sliding from s in direction d over a board whose occupied
\* squares are `occ`: up to and including the first occupied square.
ReachOcc(occ, s, d) ==
  LET ray == RayTbl[s][d]
      n   == Len(ray)
      blk == {i \in 1..n : ray[i] \in occ}
      lim == IF blk = {} THEN n ELSE SetMin(blk)
  IN {ray[i] : i \in 1..lim}

\* The first occupied square from s in direction d, as a set of 0 or 1 squares
FirstOcc(occ, s, d) ==
  LET ray == RayTbl[s][d]
      blk == {i \in 1..Len(ray) : ray[i] \in occ}
  IN IF blk = {} THEN {} ELSE {ray[SetMin(blk)]}

SlideAttacks(occ, s, dirs) == UNION {ReachOcc(occ, s, d) : d \in dirs}
RookAttacks(occ, s)   == SlideAttacks(occ, s, OrthDirs)
BishopAttacks(occ, s) == SlideAttacks(occ, s, DiagDirs)

KnightDeltas == {<<1, 2>>, <<2, 1>>, <<-1, 2>>, <<-2, 1>>, <<1, -2>>, <<2, -1>>, <<-1, -2>>, <<-2, -1>>}
KnightSet == [s \in Sq |-> {Shift(s, d[1], d[2]) : d \in KnightDeltas} \ {-1}]
KingSet   == [s \in Sq |-> {Shift(s, d[1], d[2]) : d \in AllDirs} \ {-1}]

\* Colours: 0 = White, 1 = Black.  White pawns move towards rank index 0.
Fwd(color) == IF color = 0 THEN -1 ELSE 1

\* Squares attacked by a pawn of `color` standing on s
PawnAttackSet(color, s) == {Shift(s, -1, Fwd(color)), Shift(s, 1, Fwd(color))} \ {-1}
\* Squares from which a pawn of `color` attacks q
PawnSources(q, color)   == {Shift(q, -1, -Fwd(color)), Shift(q, 1, -Fwd(color))} \ {-1}

\* Alignment and strictly-between sets
SameLine(a, b) == a # b /\ (FileOf(a) = FileOf(b) \/ RankOf(a) = RankOf(b))
SameDiag(a, b) == a # b /\ Abs(FileOf(a) - FileOf(b)) = Abs(RankOf(a) - RankOf(b))
Sgn(x) == IF x > 0 THEN 1 ELSE IF x < 0 THEN -1 ELSE 0
Between(a, b) ==
  IF ~(SameLine(a, b) \/ SameDiag(a, b)) THEN {}
  ELSE LET df == Sgn(FileOf(b) - FileOf(a))
           dr == Sgn(RankOf(b) - RankOf(a))
           n  == IF FileOf(a) # FileOf(b) THEN Abs(FileOf(b) - FileOf(a)) ELSE Abs(RankOf(b) - RankOf(a))
       IN {Shift(a, k * df, k * dr) : k \in 1..(n - 1)}

\* The relevant-occupancy mask of a slider on s: ray squares short of the board edge
RelevantMask(s, dirs) ==
  UNION {LET ray == RayTbl[s][d] IN {ray[i] : i \in 1..(Len(ray) - 1)} : d \in dirs}

\* Square colour: a1 is dark.  0 = dark, 1 = light.  a1 = (file 0, rankIndex 7).
SqColor(s) == (FileOf(s) + RankOf(s)) % 2   \* a8 (0,0) -> 0 ... a1 (0,7) -> 1 ?
\* NOTE: a1 is a dark square and a8 is a light square.  (0+7)%2 = 1 for a1, so
\* value 1 = dark and value 0 = light.
IsLight(s) == SqColor(s) = 0
IsDark(s)  == SqColor(s) = 1

MirrorV(s) == MkSq(FileOf(s), 7 - RankOf(s))     \* top-bottom
MirrorH(s) == MkSq(7 - FileOf(s), RankOf(s))     \* left-right

\* Diagonal indices as documented by the library (Coord::diag / Coord::antidiag)
DiagIx(s)     == FileOf(s) + RankOf(s)
AntidiagIx(s) == 7 - RankOf(s) + FileOf(s)
=============================================================================
