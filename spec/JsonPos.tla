------------------------------ MODULE JsonPos ------------------------------
(* Conversions between deserialised JSON values and spec values. *)
EXTENDS Rules

\* JSON arrays are 1-based sequences
PosOfJson(j) == [cells |-> [s \in Sq |-> j.cells[s + 1]], side |-> j.side,
                 castling |-> j.castling, ep |-> j.ep, hm |-> j.hm, fm |-> j.fm]
JsonOfPos(p) == [cells |-> [i \in 1..64 |-> p.cells[i - 1]], side |-> p.side,
                 castling |-> p.castling, ep |-> p.ep, hm |-> p.hm, fm |-> p.fm]
MoveOfJson(a) == <<a[1], a[2], a[3], a[4]>>
SeqToSet(q) == {q[i] : i \in 1..Len(q)}
MovesOfJson(q) == {MoveOfJson(q[i]) : i \in 1..Len(q)}
\* a sequence of JSON moves has no duplicates
NoDup(q) == Cardinality(SeqToSet(q)) = Len(q)
SqSetOfJson(q) == SeqToSet(q)
=============================================================================
