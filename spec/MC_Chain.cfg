SPECIFICATION Spec
VIEW View
INVARIANT Inv_C13_Refines
INVARIANT Inv_C13_Replay
INVARIANT Inv_C02_Valid
INVARIANT Inv_C14_Outcome
INVARIANT Inv_C14_Count
INVARIANT Inv_C17_Walker
PROPERTY Act_RefusedPushChangesNothing
PROPERTY Act_PopUndoesPush
PROPERTY Act_WalkerLeavesChain
PROPERTY Act_WalkerReturns
PROPERTY Act_PushListPartial
CHECK_DEADLOCK FALSE
