------------------------------ MODULE MC_Chain ------------------------------
(***************************************************************************)
(* Bounded instantiations of the system specification (Owlchess.tla).      *)
(* env MODEL selects a tiny endgame with a MOVE FILTER so that TLC can      *)
(* exhaust every interleaving of pushes (legal and refused), pops, outcome *)
(* operations and walker steps within the bound:                           *)
(*   knights1  one allowed knight move per side, MaxLen 17: 3- and 5-fold  *)
(*             repetition, pops lowering the counts                        *)
(*   knights2  knight or king shuffle per side, MaxLen 9: transpositions   *)
(*   castle    rook shuffles that burn castling rights + castling moves:   *)
(*             look-alike positions with different rights are different    *)
(*   ep        double step, e.p. capture (incl. an illegal, king-exposing  *)
(*             one), all moves allowed, MaxLen 3: refused pushes roll back *)
(*   clock     half-move clock 98 -> 100 and 148 -> 150 thresholds         *)
(***************************************************************************)
EXTENDS Chain, IOUtils

Model == IF "MODEL" \in DOMAIN IOEnv THEN IOEnv.MODEL ELSE "knights2"

Empty == [s \in Sq |-> 0]
RECURSIVE PlaceAll(_, _, _)
PlaceAll(c, list, i) == IF i > Len(list) THEN c ELSE PlaceAll([c EXCEPT ![list[i][1]] = list[i][2]], list, i + 1)
Pos(list, side, cr, ep, hm, fm) == [cells |-> PlaceAll(Empty, list, 1), side |-> side, castling |-> cr, ep |-> ep, hm |-> hm, fm |-> fm]
WK == 2  WN == 3  WR == 5  WQ == 6  WP == 1  BK == 8  BN == 9  BR == 11  BP == 7

KnightsPos == Pos(<< <<52, WK>>, <<51, WN>>, <<20, BK>>, <<34, BN>> >>, 0, 0, -1, 0, 1)
CastlePos == Pos(<< <<60, WK>>, <<56, WR>>, <<63, WR>>, <<4, BK>>, <<0, BR>>, <<7, BR>> >>, 0, 15, -1, 0, 1)
\* white: Ke1, Pe2, Pc5? black: Ke8, Pd4 ; after e2e4 black may capture e.p.; a rook on the 4th rank makes one e.p. illegal
EpPos == Pos(<< <<60, WK>>, <<52, WP>>, <<4, BK>>, <<35, BP>>, <<39, WR>>, <<32, BK + 0>> >>, 0, 0, -1, 0, 1)
EpPos2 == Pos(<< <<60, WK>>, <<52, WP>>, <<32, BK>>, <<35, BP>>, <<39, WR>> >>, 0, 0, -1, 0, 1)
EpPos3 == Pos(<< <<60, WK>>, <<52, WP>>, <<4, BK>>, <<35, BP>> >>, 0, 0, -1, 0, 1)
ClockPos(hm) == Pos(<< <<56, WK>>, <<57, WQ>>, <<7, BK>> >>, 0, 0, -1, hm, 1)

MStarts ==
  CASE Model = "knights1" -> {KnightsPos}
    [] Model = "knights2" -> {KnightsPos}
    [] Model = "castle" -> {CastlePos}
    [] Model = "ep" -> {EpPos2, EpPos3}
    [] Model = "clock" -> {ClockPos(98), ClockPos(148)}
    [] Model = "free" -> {KnightsPos, CastlePos, EpPos2, EpPos3, ClockPos(97), ClockPos(146)}

Pairs ==
  CASE Model = "knights1" -> {<<51, 57>>, <<57, 51>>, <<34, 24>>, <<24, 34>>}
    [] Model = "knights2" -> {<<51, 57>>, <<57, 51>>, <<34, 24>>, <<24, 34>>, <<52, 60>>, <<60, 52>>, <<20, 12>>, <<12, 20>>}
    [] Model = "castle" -> {<<56, 57>>, <<57, 56>>, <<0, 1>>, <<1, 0>>, <<60, 62>>, <<4, 6>>, <<60, 58>>, <<63, 62>>, <<62, 63>>}
    [] Model = "clock" -> {<<56, 48>>, <<48, 56>>, <<7, 15>>, <<15, 7>>, <<57, 49>>, <<49, 57>>}
    [] OTHER -> {}
MAllowed(m) == Model \in {"ep", "free"} \/ <<m[3], m[4]>> \in Pairs
MMaxLen ==
  IF "MAXLEN" \in DOMAIN IOEnv THEN atoi(IOEnv.MAXLEN) ELSE
  CASE Model = "free" -> 60 [] Model = "knights1" -> 17 [] Model = "knights2" -> 9 [] Model = "castle" -> 6 [] Model = "ep" -> 3 [] Model = "clock" -> 4

VARIABLES ic, ch, wk, obs
INSTANCE Owlchess WITH Starts <- MStarts, MaxLen <- MMaxLen, Allowed <- MAllowed

\* reachability probes (anti-vacuity): each must be VIOLATED in the model named, which shows that the
\* interesting situation is really reached within the bound (env PROBE)
ProbeName == IF "PROBE" \in DOMAIN IOEnv THEN IOEnv.PROBE ELSE "none"
Probe ==
  CASE ProbeName = "rep3" -> RepCount(ch) < 3
    [] ProbeName = "rep5" -> RepCount(ch) < 5
    [] ProbeName = "rep3_after_pop" -> ~(obs[1] = "pop" /\ RepCount(ch) >= 3)
    [] ProbeName = "refused_push" -> ~(obs[1] = "push" /\ obs[2] = "err" /\ obs[3] # NullMove)
    [] ProbeName = "moves50" -> <<"draw", "moves50">> \notin ChOutcomeAllowed(ch)
    [] ProbeName = "moves75" -> <<"draw", "moves75">> \notin ChOutcomeAllowed(ch)
    [] ProbeName = "auto_stored" -> ~(obs[1] = "set_auto" /\ obs[3] # NoOutcome)
    [] ProbeName = "walker_lazy" -> ~(wk.active /\ wk.w.bpos # wk.w.pos)
    [] ProbeName = "ep_capture" -> ~(obs[1] = "push" /\ obs[2] = "ok" /\ obs[3][1] = KEnpassant)
    [] ProbeName = "castled" -> ~(obs[1] = "push" /\ obs[2] = "ok" /\ obs[3][1] \in {KCastleK, KCastleQ})
    [] OTHER -> TRUE

\* keep the walker from multiplying the state space without adding behaviour: at most a few
\* steps per walker, tracked by the constraint below on the observation only
Constraint == TRUE
\* the observation variable does not influence behaviour: hide it from the fingerprint
View == <<ic, ch, wk>>
=============================================================================
