SPECIFICATION Spec
INVARIANT Probe
CHECK_DEADLOCK FALSE
