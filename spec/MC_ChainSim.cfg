SPECIFICATION SimSpec
INVARIANT Emit
CHECK_DEADLOCK FALSE
