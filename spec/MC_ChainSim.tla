---------------------------- MODULE MC_ChainSim ----------------------------
(***************************************************************************)
(* Behaviours of the system specification for replay into the real code    *)
(* (engine S2I).  Run in simulation mode; every behaviour that reaches the *)
(* depth bound is printed once as  "BEHAVIOUR <json>"  : the start         *)
(* position followed by the sequence of API actions with their arguments   *)
(* and the results the specification expects.                              *)
(*   tlc -simulate num=N -depth D   (env MODEL, SIMDEPTH = D)              *)
(***************************************************************************)
EXTENDS MC_Chain, Json, TLC

VARIABLE hst
SimDepth == IF "SIMDEPTH" \in DOMAIN IOEnv THEN atoi(IOEnv.SIMDEPTH) ELSE 20

JsonOfPos(p) == [cells |-> [i \in 1..64 |-> p.cells[i - 1]], side |-> p.side,
                 castling |-> p.castling, ep |-> p.ep, hm |-> p.hm, fm |-> p.fm]

SimInit == Init /\ hst = <<>>
\* simulation picks uniformly among successor STATES: drop the pure no-ops so that behaviours are
\* dominated by pushes, pops, outcome calculations and walker steps
SimStep == PushLegal \/ PushLegal \/ PushIllegal \/ (ChLen(ch) % 5 = 1 /\ PushList) \/ Pop \/ SetAuto \/ (ChLen(ch) >= 2 /\ SetOutcome) \/ ClearOutcome
           \/ (ChLen(ch) >= 1 /\ ResetOutcome)
           \/ (ChLen(ch) >= 2 /\ WalkNew) \/ WalkDrop \/ WalkNext \/ WalkPrev \/ WalkStart \/ WalkEnd
SimNext == SimStep /\ hst' = Append(hst, [act |-> obs', pos |-> JsonOfPos(Cur(ch')), len |-> ChLen(ch'),
                                        outcome |-> ch'.outcome])
SimSpec == SimInit /\ [][SimNext]_<<ic, ch, wk, obs, hst>>

Emit == Len(hst) = SimDepth =>
          PrintT("BEHAVIOUR " \o ToJson([start |-> JsonOfPos(ch.start), steps |-> hst]))
=============================================================================
