INIT Init
NEXT Next
INVARIANT Inv_FamRefines
CHECK_DEADLOCK FALSE
