---------------------------- MODULE MC_FamImpl ----------------------------
(***************************************************************************)
(* The refinement obligations between the implementation-shaped layer      *)
(* (BoardImpl: pin prefilter, virtual-occupancy legality test, generator,  *)
(* early-exit has_legal_moves, make/unmake with incremental hash and sets) *)
(* and the reference layer (Rules), checked on every VALID position of the *)
(* structured families - the inputs on which such algorithms break.        *)
(* Same enumeration and sampling as MC_Families (env FAM_<name>, STRIDE,   *)
(* SEED); nothing is printed.  env EPFIX=0 models the original prefilter.  *)
(***************************************************************************)
EXTENDS Families, BoardImpl, IOUtils, TLC

Stride == IF "STRIDE" \in DOMAIN IOEnv THEN atoi(IOEnv.STRIDE) ELSE 1
Seed == IF "SEED" \in DOMAIN IOEnv THEN atoi(IOEnv.SEED) ELSE 1
EpFix == IF "EPFIX" \in DOMAIN IOEnv THEN IOEnv.EPFIX = "1" ELSE TRUE
\* (the RAW family - disturbed raw boards, valid or not - is checked against the validator model only)
Wanted == {f \in FamilyNames : ("FAM_" \o f) \in DOMAIN IOEnv}
Fams == IF Wanted = {} THEN FamilyNames \ {"RAW"} ELSE Wanted
Primes == <<7919, 104, 1297, 15485, 3245, 4997, 6786, 8602>>
RECURSIVE HashFrom(_, _)
HashFrom(y, i) == IF i > Len(y) THEN 0 ELSE ((y[i] + 3) * Primes[i] + HashFrom(y, i + 1)) % 1000003
Keep(y) == Stride = 1 \/ (HashFrom(y, 1) + Seed) % Stride = 0

VARIABLES stage, fam, cx, out
Init == stage = 0 /\ fam = "" /\ cx = <<>> /\ out = <<>>
PickCoarse == /\ stage = 0
              /\ \E f \in Fams : \E x \in Coarse(f) : fam' = f /\ cx' = x /\ stage' = 1 /\ out' = <<>>
PickFine == /\ stage = 1
            /\ \E y \in Fine(fam, cx) : LET p == Build(fam, cx, y) IN
                 /\ Keep(y) /\ (fam = "RAW" \/ IsValid(p)) /\ out' = p /\ stage' = 2 /\ UNCHANGED <<fam, cx>>
Next == PickCoarse \/ PickFine

NullMove == <<0, 0, 0, 0>>
Inv_FamRefines ==
  stage = 2 =>
    IF fam = "RAW" THEN Obl_TryFrom(out) ELSE
    LET b == Scratch(out) IN
    /\ Obl_Legal(b, EpFix)
    /\ Obl_SemiValidate(b)
    /\ Obl_Outcome(b, EpFix)
    /\ Obl_TryFrom(out)
    /\ \A m \in PseudoLegal(out) : Obl_Make(b, m) /\ Obl_Undo(b, m)
    /\ Obl_Undo(b, NullMove)
=============================================================================
