---------------------------- MODULE MC_Families ----------------------------
(***************************************************************************)
(* Enumerates the structured families of Families.tla and emits every      *)
(* VALID position as one line   "POS <family> <json>"   for replay into    *)
(* the real code.  Init is a single state; the first step picks the family *)
(* and its coarse parameter, the second step the fine parameter, so that   *)
(* all TLC workers share the enumeration.                                  *)
(* env: FAM_<name>=1 selects families (default all); STRIDE / SEED =        *)
(* deterministic sampling of the fine parameters (STRIDE=1: exhaustive).   *)
(***************************************************************************)
EXTENDS Families, Json, IOUtils, TLC

Stride == IF "STRIDE" \in DOMAIN IOEnv THEN atoi(IOEnv.STRIDE) ELSE 1
Seed == IF "SEED" \in DOMAIN IOEnv THEN atoi(IOEnv.SEED) ELSE 1
\* family selection: env FAM_<name>=1 for each wanted family; none set = all families
Wanted == {f \in FamilyNames : ("FAM_" \o f) \in DOMAIN IOEnv}
Fams == IF Wanted = {} THEN FamilyNames ELSE Wanted

\* deterministic sampling of fine parameters (tuples of integers) from (SEED, STRIDE) alone
Primes == <<7919, 104, 1297, 15485, 3245, 4997, 6786, 8602>>     \* small: TLC integers are 32-bit
RECURSIVE HashFrom(_, _)
HashFrom(y, i) == IF i > Len(y) THEN 0 ELSE ((y[i] + 3) * Primes[i] + HashFrom(y, i + 1)) % 1000003
Keep(y) == Stride = 1 \/ (HashFrom(y, 1) + Seed) % Stride = 0

VARIABLES stage, fam, cx, out

JsonOfPos(p) == [cells |-> [i \in 1..64 |-> p.cells[i - 1]], side |-> p.side,
                 castling |-> p.castling, ep |-> p.ep, hm |-> p.hm, fm |-> p.fm]

Init == stage = 0 /\ fam = "" /\ cx = <<>> /\ out = <<>>

PickCoarse ==
  /\ stage = 0
  /\ \E f \in Fams : \E x \in Coarse(f) :
       /\ fam' = f /\ cx' = x /\ stage' = 1 /\ out' = <<>>

PickFine ==
  /\ stage = 1
  /\ \E y \in Fine(fam, cx) :
       LET p == Build(fam, cx, y) IN
       /\ Keep(y)
       /\ (fam = "RAW" \/ IsValid(p))          \* RAW boards are emitted whether valid or not
       /\ out' = p /\ stage' = 2 /\ UNCHANGED <<fam, cx>>

Next == PickCoarse \/ PickFine

Emit == stage = 2 => PrintT("POS " \o fam \o " " \o ToJson(JsonOfPos(out)))
=============================================================================
