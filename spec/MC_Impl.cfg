INIT Init
NEXT Next
INVARIANT Inv_C05
INVARIANT Inv_C04
INVARIANT Inv_C03
INVARIANT Inv_Legal
INVARIANT Inv_Valid
CHECK_DEADLOCK FALSE
