------------------------------ MODULE MC_Impl ------------------------------
(***************************************************************************)
(* Bounded model of the stand-alone Board with a manual undo stack         *)
(* (make_move_unchecked / unmake_move_unchecked), over the implementation- *)
(* shaped layer.  TLC checks the refinement obligations between the two    *)
(* layers in every reachable state:                                        *)
(*   Inv_C05  derived state (abstract-key hash, 16 occupancy sets) equals  *)
(*            the from-scratch recomputation after any make/unmake history *)
(*   Inv_C04  unmaking the last move restores the model board exactly      *)
(*   Inv_C03  the raw position after a move is Rules!ApplyMove             *)
(*   Inv_Legal the code's generator/prefilter/has_legal_moves algorithms   *)
(*            compute Rules!PseudoLegal / Rules!Legal                      *)
(* Initial states: the curated corpus (data/corpus.json).                  *)
(* env: DEPTH (make depth), EPFIX (1 = repaired prefilter, 0 = original)   *)
(***************************************************************************)
EXTENDS BoardImpl, Json, IOUtils, TLC

Corpus == JsonDeserialize("data/corpus.json")
MaxDepth == IF "DEPTH" \in DOMAIN IOEnv THEN atoi(IOEnv.DEPTH) ELSE 1
EpFix == IF "EPFIX" \in DOMAIN IOEnv THEN IOEnv.EPFIX = "1" ELSE TRUE
First == IF "FIRST" \in DOMAIN IOEnv THEN atoi(IOEnv.FIRST) ELSE 1
Last == IF "LAST" \in DOMAIN IOEnv THEN atoi(IOEnv.LAST) ELSE Len(Corpus)

PosOfJson(j) == [cells |-> [s \in Sq |-> j.cells[s + 1]], side |-> j.side,
                 castling |-> j.castling, ep |-> j.ep, hm |-> j.hm, fm |-> j.fm]
NullMove == <<0, 0, 0, 0>>

VARIABLES b, stk

OppKingSafe(bb) ==
  ~IsAttacked(bb.r.cells, KingSq(bb.r.cells, Other(bb.r.side)), bb.r.side)

Init == /\ \E i \in First..Last : b = Scratch(PosOfJson(Corpus[i].pos))
        /\ stk = <<>>

Make(m) ==
  /\ Len(stk) < MaxDepth
  /\ OppKingSafe(b)          \* contract: after a king-exposing move only unmake is permitted
  /\ LET mk == DoMake(b, m) IN
       /\ b' = mk.board
       /\ stk' = Append(stk, [m |-> m, u |-> mk.undo, before |-> b])

Unmake ==
  /\ stk # <<>>
  /\ LET t == stk[Len(stk)] IN
       /\ b' = DoUnmake(b, t.m, t.u)
       /\ stk' = SubSeq(stk, 1, Len(stk) - 1)

Next == (\E m \in PseudoLegal(b.r) \cup {NullMove} : Make(m)) \/ Unmake

Inv_C05 == Consistent(b)
Inv_C04 == stk # <<>> => LET t == stk[Len(stk)] IN DoUnmake(b, t.m, t.u) = t.before
\* (Rules!ApplyMove transcribes the code's null move, clock quirk included, so the null move is covered too)
Inv_C03 == stk # <<>> => LET t == stk[Len(stk)] IN b.r = ApplyMove(t.before.r, t.m)
\* (the validator and outcome obligations are evaluated on the corpus positions and their successors; the
\*  deeper states of the thorough runs keep to the generator / legality obligation, which is what they are for)
Inv_Legal == OppKingSafe(b) => (Obl_Legal(b, EpFix) /\ (Len(stk) <= 1 => (Obl_SemiValidate(b) /\ Obl_Outcome(b, EpFix))))
Inv_Valid == (stk # <<>> /\ stk[Len(stk)].m \in Legal(stk[Len(stk)].before.r)) => IsValid(b.r)
=============================================================================
