INIT Init
NEXT Next
INVARIANT Inv_SanInjective
INVARIANT Inv_SanResolves
INVARIANT Inv_UciRoundTrip
INVARIANT Inv_FenRoundTrip
INVARIANT Inv_Valid
CHECK_DEADLOCK FALSE
