---------------------------- MODULE MC_Notation ----------------------------
(***************************************************************************)
(* The notation layer checked against itself (who checks the oracle, for   *)
(* Notation.tla): on the corpus positions and all their successors,        *)
(*   - SanOf is injective on the legal moves, in both styles;              *)
(*   - the description of a standard text resolves to exactly that move:   *)
(*       SanResolve(SanDescribe(SanOf(m))) = {m}                           *)
(*   - UciDenotes(PseudoLegal, UciOf(m)) = {m}  (the triple determines the *)
(*     kind among pseudo-legal moves);                                     *)
(*   - FenRead(FenWrite(p)) = p, and FenWrite is canonical for what        *)
(*     FenRead returns.                                                    *)
(* env FIRST / LAST select a slice of the corpus.                          *)
(***************************************************************************)
EXTENDS Types, Json, IOUtils, TLC

Corpus == JsonDeserialize("data/corpus.json")
CFirst == IF "FIRST" \in DOMAIN IOEnv THEN atoi(IOEnv.FIRST) ELSE 1
CLast == IF "LAST" \in DOMAIN IOEnv THEN atoi(IOEnv.LAST) ELSE Len(Corpus)
Depth == IF "DEPTH" \in DOMAIN IOEnv THEN atoi(IOEnv.DEPTH) ELSE 1
PosOfJson(j) == [cells |-> [s \in Sq |-> j.cells[s + 1]], side |-> j.side,
                 castling |-> j.castling, ep |-> j.ep, hm |-> j.hm, fm |-> j.fm]

VARIABLES pos, d
Init == d = 0 /\ \E i \in CFirst..CLast : pos = PosOfJson(Corpus[i].pos)
Next == d < Depth /\ d' = d + 1 /\ \E m \in Legal(pos) : pos' = ApplyMove(pos, m)

Inv_SanInjective ==
  LET LS == Legal(pos) IN
  /\ Cardinality({SanOfIn(pos, LS, m) : m \in LS}) = Cardinality(LS)
  /\ Cardinality({SanUtf8OfIn(pos, LS, m) : m \in LS}) = Cardinality(LS)
Inv_SanResolves ==
  LET LS == Legal(pos) IN
  \A m \in LS : LET t == SanOfIn(pos, LS, m)  ds == SanDescribe(t) IN
                ds.form # "none" /\ SanResolveIn(LS, ds) = {m}
Inv_UciRoundTrip ==
  LET PL == PseudoLegal(pos) IN
  \A m \in PL : UciDenotes(PL, UciOf(m)) = {m} /\ UciParse(UciOf(m)).ok
Inv_FenRoundTrip ==
  LET t == FenWrite(pos)  r == FenRead(t) IN r.ok /\ r.pos = pos /\ FenWrite(r.pos) = t
Inv_Valid == IsValid(pos)
=============================================================================
