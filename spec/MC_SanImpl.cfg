INIT Init
NEXT Next
INVARIANT Inv_SanRefines
CHECK_DEADLOCK FALSE
