---------------------------- MODULE MC_SanImpl ----------------------------
(***************************************************************************)
(* C09 at the design level: the implementation-shaped SAN layer (SanImpl:  *)
(* AmbigDetector, AmbigSearcher, the candidate generators, the pawn forms  *)
(* rebuilt through Move::new + validate) against the reference layer       *)
(* (Notation), on every VALID position of the structured families.         *)
(* Same enumeration and sampling as MC_Families (env FAM_<name>, STRIDE,   *)
(* SEED); nothing is printed.                                              *)
(***************************************************************************)
EXTENDS Families, SanImpl, Json, IOUtils, TLC

Stride == IF "STRIDE" \in DOMAIN IOEnv THEN atoi(IOEnv.STRIDE) ELSE 1
Seed == IF "SEED" \in DOMAIN IOEnv THEN atoi(IOEnv.SEED) ELSE 1
EpFix == IF "EPFIX" \in DOMAIN IOEnv THEN IOEnv.EPFIX = "1" ELSE TRUE
Wanted == {f \in FamilyNames \ {"RAW"} : ("FAM_" \o f) \in DOMAIN IOEnv}
Fams == IF Wanted = {} THEN FamilyNames \ {"RAW"} ELSE Wanted
Primes == <<7919, 104, 1297, 15485, 3245, 4997, 6786, 8602>>
RECURSIVE HashFrom(_, _)
HashFrom(y, i) == IF i > Len(y) THEN 0 ELSE ((y[i] + 3) * Primes[i] + HashFrom(y, i + 1)) % 1000003
Keep(y) == Stride = 1 \/ (HashFrom(y, 1) + Seed) % Stride = 0

VARIABLES stage, fam, cx, out
\* env CORPUS=1: the curated corpus (ordinary middlegame positions: plain pawn captures, castlings, checks) instead
Corpus == JsonDeserialize("data/corpus.json")
PosOfJson(j) == [cells |-> [s \in Sq |-> j.cells[s + 1]], side |-> j.side,
                 castling |-> j.castling, ep |-> j.ep, hm |-> j.hm, fm |-> j.fm]
UseCorpus == "CORPUS" \in DOMAIN IOEnv
CFirst == IF "FIRST" \in DOMAIN IOEnv THEN atoi(IOEnv.FIRST) ELSE 1
CLast == IF "LAST" \in DOMAIN IOEnv THEN atoi(IOEnv.LAST) ELSE Len(Corpus)
Init == IF UseCorpus
        THEN stage = 2 /\ fam = "corpus" /\ cx = <<>> /\ \E i \in CFirst..CLast : out = PosOfJson(Corpus[i].pos)
        ELSE stage = 0 /\ fam = "" /\ cx = <<>> /\ out = <<>>
PickCoarse == /\ stage = 0
              /\ \E f \in Fams : \E x \in Coarse(f) : fam' = f /\ cx' = x /\ stage' = 1 /\ out' = <<>>
PickFine == /\ stage = 1
            /\ \E y \in Fine(fam, cx) : LET p == Build(fam, cx, y) IN
                 /\ Keep(y) /\ IsValid(p) /\ out' = p /\ stage' = 2 /\ UNCHANGED <<fam, cx>>
Next == PickCoarse \/ PickFine

Inv_SanRefines ==
  stage = 2 =>
    LET b == Scratch(out) IN
    /\ Obl_SanWrite(b, EpFix)
    /\ Obl_SanRoundTrip(b, EpFix)
    /\ Obl_SanRead(b, EpFix)
Inv_UciRefines == stage = 2 => Obl_Uci(Scratch(out), EpFix)
=============================================================================
