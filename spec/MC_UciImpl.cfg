INIT Init
NEXT Next
INVARIANT Inv_UciRefines
CHECK_DEADLOCK FALSE
