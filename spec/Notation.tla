------------------------------ MODULE Notation ------------------------------
(***************************************************************************)
(* REFERENCE LAYER for the text formats, at the level of Unicode code      *)
(* points (a text is a sequence of integers; TLC cannot index strings).    *)
(*   UCI : writer UciOf, reader UciParse, kind inference from the rules    *)
(*   SAN : writer SanOf (FIDE Laws, Appendix C), reader SanDescribe and    *)
(*         resolution SanResolve among the legal moves                     *)
(*   FEN : writer FenWrite and an independent reader FenRead               *)
(***************************************************************************)
EXTENDS Rules

\* characters
ChA == 97  ChH == 104  Ch1 == 49  Ch8 == 56  Ch0 == 48  Ch9 == 57
FileCh(f) == 97 + f                      \* 'a' + file
RankCh(r) == 56 - r                      \* rank index 0 is rank '8'
IsFileCh(c) == c \in 97..104
IsRankCh(c) == c \in 49..56
FileOfCh(c) == c - 97
RankOfCh(c) == 56 - c
SqText(s) == <<FileCh(FileOf(s)), RankCh(RankOf(s))>>
Txt(str) ==    \* the few literal texts we need, as code points
  CASE str = "0000" -> <<48, 48, 48, 48>>
    [] str = "O-O" -> <<79, 45, 79>>
    [] str = "O-O-O" -> <<79, 45, 79, 45, 79>>
    [] str = "0-0" -> <<48, 45, 48>>
    [] str = "0-0-0" -> <<48, 45, 48, 45, 48>>
    [] str = "-" -> <<45>>

(***************************************************************************)
(* UCI                                                                     *)
(***************************************************************************)
PromoLetterLower(kind) == CASE kind = KPromoN -> 110 [] kind = KPromoB -> 98 [] kind = KPromoR -> 114 [] kind = KPromoQ -> 113
UciOf(m) ==
  IF m[1] = KNull THEN Txt("0000")
  ELSE SqText(m[3]) \o SqText(m[4]) \o (IF m[1] \in PromoKinds THEN <<PromoLetterLower(m[1])>> ELSE <<>>)

\* <<src, dst, promoKindOr0>> of a move
Triple(m) == <<m[3], m[4], IF m[1] \in PromoKinds THEN m[1] ELSE 0>>

\* Parsed UCI text: [ok |-> FALSE] / [ok |-> TRUE, null |-> TRUE] / [ok, null |-> FALSE, src, dst, promo]
UciParse(t) ==
  IF t = Txt("0000") THEN [ok |-> TRUE, null |-> TRUE, src |-> 0, dst |-> 0, promo |-> 0]
  ELSE IF Len(t) \notin {4, 5} THEN [ok |-> FALSE]
  ELSE IF ~(IsFileCh(t[1]) /\ IsRankCh(t[2]) /\ IsFileCh(t[3]) /\ IsRankCh(t[4])) THEN [ok |-> FALSE]
  ELSE IF Len(t) = 5 /\ t[5] \notin {110, 98, 114, 113} THEN [ok |-> FALSE]
  ELSE [ok |-> TRUE, null |-> FALSE,
        src |-> MkSq(FileOfCh(t[1]), RankOfCh(t[2])), dst |-> MkSq(FileOfCh(t[3]), RankOfCh(t[4])),
        promo |-> IF Len(t) = 4 THEN 0
                  ELSE CASE t[5] = 110 -> KPromoN [] t[5] = 98 -> KPromoB [] t[5] = 114 -> KPromoR [] t[5] = 113 -> KPromoQ]

\* the moves of a set with a given triple (at most one for pseudo-legal sets: the kind is determined)
WithTriple(S, u) == {m \in S : Triple(m) = <<u.src, u.dst, u.promo>>}
\* moves denoted by a UCI text among a set of moves
UciDenotes(S, t) == LET u == UciParse(t) IN IF ~u.ok \/ u.null THEN {} ELSE WithTriple(S, u)

(***************************************************************************)
(* SAN writer (FIDE Laws of Chess, Appendix C).                            *)
(***************************************************************************)
PieceLetter(p) == CASE p = N -> 78 [] p = B -> 66 [] p = R -> 82 [] p = Q -> 81 [] p = K -> 75 [] p = P -> 80
\* white figurines, used by the "utf8" style for both colours
PieceFigurine(p) == CASE p = K -> 9812 [] p = Q -> 9813 [] p = R -> 9814 [] p = B -> 9815 [] p = N -> 9816 [] p = P -> 9817
ChX == 120  ChEq == 61  ChPlus == 43  ChHash == 35  ChColon == 58

\* other legal moves of the same kind of piece to the same square
\* (LS = Legal(pos), passed in so that callers compute it once per position)
SanRivals(LS, m) ==
  {x \in LS : x # m /\ x[1] = KSimple /\ x[2] = m[2] /\ x[4] = m[4]}
SanDisamb(LS, m) ==
  LET riv == SanRivals(LS, m)  s == m[3] IN
  IF riv = {} THEN <<>>
  ELSE IF \A x \in riv : FileOf(x[3]) # FileOf(s) THEN <<FileCh(FileOf(s))>>
  ELSE IF \A x \in riv : RankOf(x[3]) # RankOf(s) THEN <<RankCh(RankOf(s))>>
  ELSE SqText(s)

SanSuffix(pos, m) ==
  LET nxt == ApplyMove(pos, m) IN
  IF ~InCheck(nxt) THEN <<>> ELSE IF Legal(nxt) = {} THEN <<ChHash>> ELSE <<ChPlus>>

\* style "san": letters and "=" before the promoted piece; style "utf8": figurines and no "="
SanBody(pos, LS, m, utf8) ==
  LET k == m[1]  p == PieceOf(m[2])  s == m[3]  d == m[4]
      letter(x) == IF utf8 THEN PieceFigurine(x) ELSE PieceLetter(x)
      promo == IF k \in PromoKinds THEN (IF utf8 THEN <<>> ELSE <<ChEq>>) \o <<letter(PromoPiece(k))>> ELSE <<>>
  IN CASE k = KCastleK -> Txt("O-O")
       [] k = KCastleQ -> Txt("O-O-O")
       [] p = P -> (IF FileOf(s) # FileOf(d) THEN <<FileCh(FileOf(s)), ChX>> ELSE <<>>) \o SqText(d) \o promo
       [] OTHER -> <<letter(p)>> \o SanDisamb(LS, m) \o (IF pos.cells[d] # 0 THEN <<ChX>> ELSE <<>>) \o SqText(d)
SanOfIn(pos, LS, m) == SanBody(pos, LS, m, FALSE) \o SanSuffix(pos, m)
SanUtf8OfIn(pos, LS, m) == SanBody(pos, LS, m, TRUE) \o SanSuffix(pos, m)
SanOf(pos, m) == SanOfIn(pos, Legal(pos), m)
SanUtf8Of(pos, m) == SanUtf8OfIn(pos, Legal(pos), m)

(***************************************************************************)
(* SAN reader: what a text says, and which legal moves agree with it.      *)
(* A description is [form, ...]; form "none" = the text is not classified  *)
(* (then only "the returned move is legal" is required of the parser).     *)
(***************************************************************************)
IsPieceLetterCh(c) == c \in {78, 66, 82, 81, 75}
PieceOfLetterCh(c) == CASE c = 78 -> N [] c = 66 -> B [] c = 82 -> R [] c = 81 -> Q [] c = 75 -> K
IsPromoLetterCh(c) == c \in {78, 66, 82, 81}
PromoKindOfLetterCh(c) == CASE c = 78 -> KPromoN [] c = 66 -> KPromoB [] c = 82 -> KPromoR [] c = 81 -> KPromoQ
IsCapCh(c) == c = ChX \/ c = ChColon

\* strip one check suffix: "#", "++" or "+" - and, as the code does, a trailing "x" (an old-style mate mark)
SanStrip(t) ==
  LET n == Len(t) IN
  IF n >= 1 /\ t[n] \in {ChHash, ChX} THEN SubSeq(t, 1, n - 1)
  ELSE IF n >= 2 /\ t[n] = ChPlus /\ t[n - 1] = ChPlus THEN SubSeq(t, 1, n - 2)
  ELSE IF n >= 1 /\ t[n] = ChPlus THEN SubSeq(t, 1, n - 1)
  ELSE t

\* strip a promotion suffix "=X" or "X"; returns <<rest, promoKindOr0>>
SanStripPromo(t) ==
  LET n == Len(t) IN
  IF n >= 1 /\ IsPromoLetterCh(t[n])
  THEN IF n >= 2 /\ t[n - 1] = ChEq THEN <<SubSeq(t, 1, n - 2), PromoKindOfLetterCh(t[n])>>
       ELSE <<SubSeq(t, 1, n - 1), PromoKindOfLetterCh(t[n])>>
  ELSE <<t, 0>>

NoDesc == [form |-> "none"]
SanDescribe(text) ==
  LET t == SanStrip(text)  n == Len(t)  u == UciParse(t) IN
  IF t = Txt("O-O") \/ t = Txt("0-0") THEN [form |-> "castle", kind |-> KCastleK]
  ELSE IF t = Txt("O-O-O") \/ t = Txt("0-0-0") THEN [form |-> "castle", kind |-> KCastleQ]
  ELSE IF u.ok THEN (IF u.null THEN NoDesc ELSE [form |-> "uci", src |-> u.src, dst |-> u.dst, promo |-> u.promo])
  ELSE IF n >= 3 /\ IsPieceLetterCh(t[1]) THEN
       \* piece letter, optional file, optional rank, optional capture mark, destination
       LET body == SubSeq(t, 2, n - 2)
           okDst == IsFileCh(t[n - 1]) /\ IsRankCh(t[n])
           b1 == IF Len(body) >= 1 /\ IsFileCh(body[1]) THEN <<FileOfCh(body[1]), SubSeq(body, 2, Len(body))>> ELSE <<-1, body>>
           b2 == IF Len(b1[2]) >= 1 /\ IsRankCh(b1[2][1]) THEN <<RankOfCh(b1[2][1]), SubSeq(b1[2], 2, Len(b1[2]))>> ELSE <<-1, b1[2]>>
           b3 == IF Len(b2[2]) >= 1 /\ IsCapCh(b2[2][1]) THEN SubSeq(b2[2], 2, Len(b2[2])) ELSE b2[2]
       IN IF okDst /\ b3 = <<>>
          THEN [form |-> "piece", piece |-> PieceOfLetterCh(t[1]), fileHint |-> b1[1], rankHint |-> b2[1],
                dst |-> MkSq(FileOfCh(t[n - 1]), RankOfCh(t[n]))]
          ELSE NoDesc
  ELSE LET sp == SanStripPromo(t)  r == sp[1]  promo == sp[2]  k == Len(r) IN
       IF k = 2 /\ IsFileCh(r[1]) /\ IsRankCh(r[2])
       THEN [form |-> "pawn", dst |-> MkSq(FileOfCh(r[1]), RankOfCh(r[2])), promo |-> promo]
       ELSE IF k = 2 /\ IsFileCh(r[1]) /\ IsFileCh(r[2])
       THEN [form |-> "pawnshort", srcFile |-> FileOfCh(r[1]), dstFile |-> FileOfCh(r[2]), promo |-> promo]
       ELSE IF k = 4 /\ IsFileCh(r[1]) /\ IsCapCh(r[2]) /\ IsFileCh(r[3]) /\ IsRankCh(r[4])
       THEN [form |-> "pawncap", srcFile |-> FileOfCh(r[1]), dst |-> MkSq(FileOfCh(r[3]), RankOfCh(r[4])), promo |-> promo]
       ELSE NoDesc

PromoAgrees(promo, m) == IF promo = 0 THEN m[1] \notin PromoKinds ELSE m[1] = promo
SanAgrees(d, m) ==
  LET p == PieceOf(m[2])  s == m[3]  dd == m[4] IN
  CASE d.form = "castle" -> m[1] = d.kind
    [] d.form = "uci" -> Triple(m) = <<d.src, d.dst, d.promo>>
    [] d.form = "piece" -> /\ m[1] = KSimple /\ p = d.piece /\ dd = d.dst
                           /\ (d.fileHint # -1 => FileOf(s) = d.fileHint)
                           /\ (d.rankHint # -1 => RankOf(s) = d.rankHint)
    [] d.form = "pawn" -> p = P /\ m[1] \notin {KCastleK, KCastleQ} /\ dd = d.dst /\ FileOf(s) = FileOf(dd) /\ PromoAgrees(d.promo, m)
    [] d.form = "pawncap" -> p = P /\ dd = d.dst /\ FileOf(s) = d.srcFile /\ FileOf(s) # FileOf(dd) /\ PromoAgrees(d.promo, m)
    [] d.form = "pawnshort" -> p = P /\ FileOf(s) = d.srcFile /\ FileOf(dd) = d.dstFile /\ FileOf(s) # FileOf(dd) /\ PromoAgrees(d.promo, m)
    [] OTHER -> FALSE
SanResolveIn(LS, d) == {m \in LS : SanAgrees(d, m)}
SanResolve(pos, d) == SanResolveIn(Legal(pos), d)

\* the legal moves whose standard text is exactly `text`
SanExactIn(pos, LS, text) == {m \in LS : SanOfIn(pos, LS, m) = text}

(***************************************************************************)
(* FEN writer and an independent FEN reader.                               *)
(***************************************************************************)
CellCh == <<80, 75, 78, 66, 82, 81, 112, 107, 110, 98, 114, 113>>     \* PKNBRQpknbrq
ChSlash == 47  ChSpace == 32  ChDash == 45
RECURSIVE NatTxt(_)
NatTxt(n) == IF n < 10 THEN <<48 + n>> ELSE NatTxt(n \div 10) \o <<48 + (n % 10)>>

RECURSIVE FenRowFrom(_, _, _, _)
FenRowFrom(c, r, f, run) ==
  IF f > 7 THEN (IF run > 0 THEN <<48 + run>> ELSE <<>>)
  ELSE LET cell == c[MkSq(f, r)] IN
       IF cell = 0 THEN FenRowFrom(c, r, f + 1, run + 1)
       ELSE (IF run > 0 THEN <<48 + run>> ELSE <<>>) \o <<CellCh[cell]>> \o FenRowFrom(c, r, f + 1, 0)
RECURSIVE FenRowsFrom(_, _)
FenRowsFrom(c, r) == IF r > 7 THEN <<>> ELSE (IF r > 0 THEN <<ChSlash>> ELSE <<>>) \o FenRowFrom(c, r, 0, 0) \o FenRowsFrom(c, r + 1)

RightsText(cr) ==
  IF cr = 0 THEN <<ChDash>>
  ELSE (IF HasRight(cr, White, SideK) THEN <<75>> ELSE <<>>) \o (IF HasRight(cr, White, SideQ) THEN <<81>> ELSE <<>>)
       \o (IF HasRight(cr, Black, SideK) THEN <<107>> ELSE <<>>) \o (IF HasRight(cr, Black, SideQ) THEN <<113>> ELSE <<>>)

\* the e.p. field names the square the pawn passed over; its rank depends only on the side to move
FenWrite(pos) ==
  FenRowsFrom(pos.cells, 0) \o <<ChSpace, IF pos.side = White THEN 119 ELSE 98, ChSpace>> \o RightsText(pos.castling)
  \o <<ChSpace>> \o (IF pos.ep = -1 THEN <<ChDash>> ELSE <<FileCh(FileOf(pos.ep)), RankCh(EpDstRank(pos.side))>>)
  \o <<ChSpace>> \o NatTxt(pos.hm) \o <<ChSpace>> \o NatTxt(pos.fm)

\* --- reader ---
\* split at single spaces
RECURSIVE SplitFrom(_, _, _)
SplitFrom(t, i, cur) ==
  IF i > Len(t) THEN <<cur>>
  ELSE IF t[i] = ChSpace THEN <<cur>> \o SplitFrom(t, i + 1, <<>>)
  ELSE SplitFrom(t, i + 1, Append(cur, t[i]))
Split(t) == SplitFrom(t, 1, <<>>)

IsDigitCh(c) == c \in 48..57
RECURSIVE NatOfFrom(_, _, _)
NatOfFrom(t, i, acc) == IF i > Len(t) THEN acc
                        ELSE IF acc > 100000 THEN acc ELSE NatOfFrom(t, i + 1, acc * 10 + (t[i] - 48))
\* a canonical decimal number in 0..65535 (no sign, no leading zeros), or -1
NatOf(t) == IF t = <<>> \/ (\E i \in 1..Len(t) : ~IsDigitCh(t[i])) \/ (Len(t) > 1 /\ t[1] = 48) \/ Len(t) > 5 THEN -1
            ELSE LET v == NatOfFrom(t, 1, 0) IN IF v > 65535 THEN -1 ELSE v

CellOfCh(c) == IF \E i \in 1..12 : CellCh[i] = c THEN CHOOSE i \in 1..12 : CellCh[i] = c ELSE -1
\* one rank: sequence of 8 cells or <<>> on error
RECURSIVE RowCellsFrom(_, _, _)
RowCellsFrom(t, i, acc) ==
  IF i > Len(t) THEN acc
  ELSE IF t[i] \in 49..56 THEN RowCellsFrom(t, i + 1, acc \o [k \in 1..(t[i] - 48) |-> 0])
  ELSE IF CellOfCh(t[i]) # -1 THEN RowCellsFrom(t, i + 1, Append(acc, CellOfCh(t[i])))
  ELSE <<-1, -1, -1, -1, -1, -1, -1, -1, -1>>       \* 9 entries: always rejected
RECURSIVE SplitSlashFrom(_, _, _)
SplitSlashFrom(t, i, cur) ==
  IF i > Len(t) THEN <<cur>>
  ELSE IF t[i] = ChSlash THEN <<cur>> \o SplitSlashFrom(t, i + 1, <<>>)
  ELSE SplitSlashFrom(t, i + 1, Append(cur, t[i]))

RightsOfText(t) ==
  IF t = <<ChDash>> THEN 0
  ELSE IF t = <<>> \/ (\E i \in 1..Len(t) : t[i] \notin {75, 81, 107, 113}) \/ (\E i, j \in 1..Len(t) : i # j /\ t[i] = t[j]) THEN -1
  ELSE (IF \E i \in 1..Len(t) : t[i] = 81 THEN 1 ELSE 0) + (IF \E i \in 1..Len(t) : t[i] = 75 THEN 2 ELSE 0)
       + (IF \E i \in 1..Len(t) : t[i] = 113 THEN 4 ELSE 0) + (IF \E i \in 1..Len(t) : t[i] = 107 THEN 8 ELSE 0)

FenErr == [ok |-> FALSE]
FenRead(text) ==
  LET fs == Split(text) IN
  IF Len(fs) # 6 THEN FenErr
  ELSE LET rows == SplitSlashFrom(fs[1], 1, <<>>)
           rc == [r \in 1..Len(rows) |-> RowCellsFrom(rows[r], 1, <<>>)]
           side == IF fs[2] = <<119>> THEN White ELSE IF fs[2] = <<98>> THEN Black ELSE -1
           cr == RightsOfText(fs[3])
           epOk == fs[4] = <<ChDash>> \/ (Len(fs[4]) = 2 /\ IsFileCh(fs[4][1]) /\ IsRankCh(fs[4][2]))
           hm == NatOf(fs[5])  fm == NatOf(fs[6])
       IN IF Len(rows) # 8 \/ (\E r \in 1..Len(rows) : Len(rc[r]) # 8) \/ side = -1 \/ cr = -1 \/ ~epOk \/ hm = -1 \/ fm = -1
          THEN FenErr
          ELSE IF fs[4] # <<ChDash>> /\ RankOfCh(fs[4][2]) # EpDstRank(side) THEN FenErr
          ELSE [ok |-> TRUE,
                pos |-> [cells |-> [s \in Sq |-> rc[RankOf(s) + 1][FileOf(s) + 1]], side |-> side, castling |-> cr,
                         ep |-> IF fs[4] = <<ChDash>> THEN -1 ELSE MkSq(FileOfCh(fs[4][1]), EpSrcRank(side)),
                         hm |-> hm, fm |-> fm]]

(***************************************************************************)
(* The FEN reader AS THE CODE DOES IT (FromStr for RawBoard, parse_cells,  *)
(* parse_ep_source): split at single blanks, fields read in order, the     *)
(* first failure is the error; counters may be omitted (0 and 1), may      *)
(* carry a "+" and leading zeros (u16::from_str); a seventh field is extra *)
(* data.  Result: [ok |-> TRUE, pos |-> ...] or [ok |-> FALSE, err |-> tag]*)
(* No listed property pins this leniency: Trace compares it as a NOTE.     *)
(***************************************************************************)
RECURSIVE ImplCellsFrom(_, _, _, _, _)
ImplCellsFrom(t, i, file, rank, acc) ==     \* acc: the cells so far, row-major from a8
  IF i > Len(t) THEN (IF file < 8 THEN [ok |-> FALSE, err |-> "Board.RankUnderflow"]
                      ELSE IF rank < 7 THEN [ok |-> FALSE, err |-> "Board.Underflow"]
                      ELSE [ok |-> TRUE, cells |-> acc])
  ELSE LET ch == t[i] IN
    IF ch \in 49..56 THEN
         (IF file + (ch - 48) > 8 THEN [ok |-> FALSE, err |-> "Board.RankOverflow"]
          ELSE ImplCellsFrom(t, i + 1, file + (ch - 48), rank, acc \o [k \in 1..(ch - 48) |-> 0]))
    ELSE IF ch = ChSlash THEN
         (IF file < 8 THEN [ok |-> FALSE, err |-> "Board.RankUnderflow"]
          ELSE IF rank + 1 >= 8 THEN [ok |-> FALSE, err |-> "Board.Overflow"]
          ELSE ImplCellsFrom(t, i + 1, 0, rank + 1, acc))
    ELSE IF file >= 8 THEN [ok |-> FALSE, err |-> "Board.RankOverflow"]
    ELSE IF ch = 46 THEN ImplCellsFrom(t, i + 1, file + 1, rank, Append(acc, 0))     \* "." is the empty cell's own character
    ELSE IF CellOfCh(ch) = -1 THEN [ok |-> FALSE, err |-> "Board.UnexpectedChar"]
    ELSE ImplCellsFrom(t, i + 1, file + 1, rank, Append(acc, CellOfCh(ch)))

\* u16::from_str: optional "+", at least one digit, leading zeros allowed, value <= 65535; -1 on error
U16Of(t) ==
  LET d == IF t # <<>> /\ t[1] = ChPlus THEN SubSeq(t, 2, Len(t)) ELSE t IN
  IF d = <<>> \/ (\E i \in 1..Len(d) : ~IsDigitCh(d[i])) THEN -1
  ELSE LET v == NatOfFrom(d, 1, 0) IN IF v > 65535 THEN -1 ELSE v

ColorOfTextImpl(t) == IF t = <<119>> THEN 0 ELSE IF t = <<98>> THEN 1 ELSE -1
ImplFenRead(text) ==
  LET E(tag) == [ok |-> FALSE, err |-> tag]
      fs == Split(text)  n == Len(fs) IN
  IF \E i \in 1..Len(text) : text[i] > 127 THEN E("NonAscii")
  ELSE LET cl == ImplCellsFrom(fs[1], 1, 0, 0, <<>>) IN
  IF ~cl.ok THEN cl
  ELSE IF n < 2 THEN E("NoMoveSide")
  ELSE LET side == ColorOfTextImpl(fs[2]) IN
  IF side = -1 THEN E("MoveSide")
  ELSE IF n < 3 THEN E("NoCastling")
  ELSE IF RightsOfText(fs[3]) = -1 THEN E("Castling")
  ELSE IF n < 4 THEN E("NoEnpassant")
  ELSE LET epf == fs[4]
           epNone == epf = <<ChDash>>
           epSq == Len(epf) = 2 /\ IsFileCh(epf[1]) /\ IsRankCh(epf[2]) IN
  IF ~epNone /\ ~epSq THEN E("Enpassant")
  ELSE IF ~epNone /\ RankOfCh(epf[2]) # EpDstRank(side) THEN E("InvalidEnpassantRank")
  ELSE LET hm == IF n >= 5 THEN U16Of(fs[5]) ELSE 0
           fm == IF n >= 6 THEN U16Of(fs[6]) ELSE 1 IN
  IF hm = -1 THEN E("MoveCounter")
  ELSE IF fm = -1 THEN E("MoveNumber")
  ELSE IF n >= 7 THEN E("ExtraData")
  ELSE [ok |-> TRUE,
        pos |-> [cells |-> [s \in Sq |-> cl.cells[s + 1]], side |-> side, castling |-> RightsOfText(fs[3]),
                 ep |-> IF epNone THEN -1 ELSE MkSq(FileOfCh(epf[1]), EpSrcRank(side)), hm |-> hm, fm |-> fm]]
=============================================================================
