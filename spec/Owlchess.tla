------------------------------ MODULE Owlchess ------------------------------
(***************************************************************************)
(* THE SYSTEM: the library's stateful objects as one state machine.        *)
(*                                                                         *)
(*   ic    implementation-shaped move chain (Chain!INew/IPush/IPop...):    *)
(*         live board mutated in place, (move, undo) stack, repetition     *)
(*         multiset keyed by hash, stored outcome                          *)
(*   ch    the abstract chain it must represent (start, moves, hist,       *)
(*         outcome) - the vocabulary of properties C13 / C14               *)
(*   wk    a walker over the chain: implementation-shaped record (logical  *)
(*         cursor, physical cursor, private board copy) + abstract cursor  *)
(*         + the result of its last operation                              *)
(*   obs   the value returned by the last API call (observation only)      *)
(*                                                                         *)
(* Next is the disjunction of every API action.  Preconditions are the     *)
(* documented ones: push / set_outcome / set_auto_outcome require that no  *)
(* outcome is stored (the code asserts it); a walker borrows the chain, so *)
(* chain-mutating actions are disabled while it is alive (the borrow       *)
(* checker enforces this for the real code).                               *)
(*                                                                         *)
(* CONSTANTS (fixed by the MC_* instantiations):                           *)
(*   Starts       set of valid start positions                             *)
(*   Allowed(m)   move filter: which moves the model explores (TRUE = all) *)
(*   MaxLen       bound on the chain length                                *)
(***************************************************************************)
EXTENDS Chain

CONSTANTS Starts, MaxLen
\* the move filter is an operator so that models can restrict the branching factor
CONSTANT Allowed(_)

VARIABLES ic, ch, wk, obs
vars == <<ic, ch, wk, obs>>

NoWalker == [active |-> FALSE]
Filters == {"force", "strict", "relaxed"}
SomeOutcomes == {<<"win", White, "resign">>, <<"draw", "agreement">>}

Init ==
  /\ \E p \in Starts : ic = INew(p) /\ ch = NewChain(p)
  /\ wk = NoWalker
  /\ obs = <<"new">>

Mutable == ~wk.active

\* push of a legal move (every notation resolves to the same Move; resolution is C02/C09/C10)
PushLegal ==
  /\ Mutable /\ ch.outcome = NoOutcome /\ ChLen(ch) < MaxLen
  /\ \E m \in {m \in Legal(Cur(ch)) : Allowed(m)} :
       /\ ic' = IPush(ic, m) /\ ch' = ChPush(ch, m)
       /\ obs' = <<"push", "ok", m>>
  /\ UNCHANGED wk

\* refused push of a pseudo-legal move that leaves the king attacked: make, test, roll back
PushIllegal ==
  /\ Mutable /\ ch.outcome = NoOutcome
  /\ \E m \in {m \in PseudoLegal(Cur(ch)) \ Legal(Cur(ch)) : Allowed(m)} :
       /\ ic' = IPushRefused(ic, m) /\ ch' = ch
       /\ obs' = <<"push", "err", m>>
  /\ UNCHANGED wk

\* refused push of anything that is not even semilegal (null move, garbage): nothing is touched
PushGarbage ==
  /\ Mutable /\ ch.outcome = NoOutcome
  /\ obs' = <<"push", "err", NullMove>>
  /\ UNCHANGED <<ic, ch, wk>>

Pop ==
  /\ Mutable
  /\ ic' = IPop(ic) /\ ch' = ChPop(ch)
  /\ obs' = IF ch.moves = <<>> THEN <<"pop", "none">> ELSE <<"pop", "some", ch.moves[ChLen(ch)]>>
  /\ UNCHANGED wk

SetOutcome ==
  /\ Mutable /\ ch.outcome = NoOutcome
  /\ \E o \in SomeOutcomes :
       /\ ic' = [ic EXCEPT !.outcome = o] /\ ch' = [ch EXCEPT !.outcome = o]
       /\ obs' = <<"set_outcome", o>>
  /\ UNCHANGED wk

ClearOutcome ==
  /\ Mutable /\ ch.outcome # NoOutcome
  /\ ic' = [ic EXCEPT !.outcome = NoOutcome] /\ ch' = [ch EXCEPT !.outcome = NoOutcome]
  /\ obs' = <<"clear_outcome">> /\ UNCHANGED wk

\* reset_outcome(Some(o) / None): stores or clears unconditionally
ResetOutcome ==
  /\ Mutable
  /\ \E o \in SomeOutcomes \cup {NoOutcome} :
       /\ ic' = [ic EXCEPT !.outcome = o] /\ ch' = [ch EXCEPT !.outcome = o]
       /\ obs' = <<"reset_outcome", o>>
  /\ UNCHANGED wk

\* push_uci_list(text) with two tokens: the moves are pushed one by one; the first token that does not denote a
\* legal move stops the call with an error and what was pushed before it STAYS (a partial effect, as in the code)
PushList ==
  /\ Mutable /\ ch.outcome = NoOutcome /\ ChLen(ch) + 2 <= MaxLen
  /\ \E m1 \in {m \in Legal(Cur(ch)) : Allowed(m)} \cup {NullMove} :
       IF m1 = NullMove
       THEN /\ obs' = <<"pushlist", "err", 0, <<m1>>>> /\ UNCHANGED <<ic, ch>>
       ELSE LET ic1 == IPush(ic, m1)  ch1 == ChPush(ch, m1) IN
            \E m2 \in {m \in Legal(Cur(ch1)) : Allowed(m)} \cup {NullMove} :
              IF m2 = NullMove
              THEN /\ ic' = ic1 /\ ch' = ch1 /\ obs' = <<"pushlist", "err", 1, <<m1, m2>>>>
              ELSE /\ ic' = IPush(ic1, m2) /\ ch' = ChPush(ch1, m2) /\ obs' = <<"pushlist", "ok", 2, <<m1, m2>>>>
  /\ UNCHANGED wk

\* set_auto_outcome(filter): the CODE consults its repetition table (ICalcOutcomeAllowed); the
\* PROPERTY speaks about the abstract history (AutoAllowed) - Inv_AutoOutcome relates the two
SetAuto ==
  /\ Mutable /\ ch.outcome = NoOutcome
  /\ \E f \in Filters :
       LET cand == {o \in ICalcOutcomeAllowed(ic) : o # NoOutcome /\ OutcomePasses(o, f)} IN
       \E o \in (IF cand = {} THEN {NoOutcome} ELSE cand) :
          /\ ic' = [ic EXCEPT !.outcome = o] /\ ch' = [ch EXCEPT !.outcome = o]
          /\ obs' = <<"set_auto", f, o>>
  /\ UNCHANGED wk

\* ---- walker ----
WalkNew ==
  /\ ~wk.active
  /\ wk' = [active |-> TRUE, w |-> IWalk(ic), i |-> 0, last |-> <<"none">>]
  /\ obs' = <<"walk">> /\ UNCHANGED <<ic, ch>>
WalkDrop ==
  /\ wk.active /\ wk' = NoWalker /\ obs' = <<"drop">> /\ UNCHANGED <<ic, ch>>
WalkNext ==
  /\ wk.active
  /\ LET r == IWNext(ic, wk.w)  a == WNext(ch, wk.i) IN
       wk' = [wk EXCEPT !.w = r.w, !.i = a.i,
                        !.last = IF r.some THEN <<"some", r.board, r.m>> ELSE <<"none">>]
  /\ obs' = <<"wnext">> /\ UNCHANGED <<ic, ch>>
WalkPrev ==
  /\ wk.active
  /\ LET r == IWPrev(ic, wk.w)  a == WPrev(ch, wk.i) IN
       wk' = [wk EXCEPT !.w = r.w, !.i = a.i,
                        !.last = IF r.some THEN <<"some", r.board, r.m>> ELSE <<"none">>]
  /\ obs' = <<"wprev">> /\ UNCHANGED <<ic, ch>>
WalkStart ==
  /\ wk.active /\ wk' = [wk EXCEPT !.w.pos = 0, !.i = 0, !.last = <<"none">>]
  /\ obs' = <<"wstart">> /\ UNCHANGED <<ic, ch>>
WalkEnd ==
  /\ wk.active /\ wk' = [wk EXCEPT !.w.pos = Len(ic.stack), !.i = ChLen(ch), !.last = <<"none">>]
  /\ obs' = <<"wend">> /\ UNCHANGED <<ic, ch>>

Next == PushLegal \/ PushIllegal \/ PushGarbage \/ PushList \/ Pop \/ SetOutcome \/ ClearOutcome \/ ResetOutcome \/ SetAuto
        \/ WalkNew \/ WalkDrop \/ WalkNext \/ WalkPrev \/ WalkStart \/ WalkEnd

Spec == Init /\ [][Next]_vars

(***************************************************************************)
(* The listed properties at the design level.                              *)
(***************************************************************************)
\* C13 (+ C04/C05 inside chains): the implementation-shaped chain represents the abstract one:
\* live board (incl. hash and all occupancy sets) = from-scratch board of the replayed position,
\* recorded moves = accepted moves, repetition multiset = multiset of the hashes of the history
Inv_C13_Refines == Refines(ic, ch)

\* C13: the current position is the replay of the accepted moves from the start
RECURSIVE Replay(_, _, _)
Replay(pos, moves, i) == IF i > Len(moves) THEN pos ELSE Replay(ApplyMove(pos, moves[i]), moves, i + 1)
Inv_C13_Replay == Cur(ch) = Replay(ch.start, ch.moves, 1) /\ ic.board.r = Cur(ch)

\* C02: every position of the history is valid
Inv_C02_Valid == \A i \in 1..Len(ch.hist) : IsValid(ch.hist[i])

\* C14: what the code computes from its hash-keyed table is what the abstract history prescribes
Inv_C14_Outcome == ICalcOutcomeAllowed(ic) = ChOutcomeAllowed(ch)
Inv_C14_Count == BagCount(ic.repeat, ic.board.hash) = RepCount(ch)

\* C17: the walker's cursors and its lazily moved private board agree with the abstract cursor
Inv_C17_Walker ==
  wk.active =>
    /\ wk.w.pos = wk.i
    /\ wk.w.board = Scratch(ch.hist[wk.w.bpos + 1])      \* the private copy is always SOME exact history board
    /\ wk.last[1] = "some" =>
         \* the returned board is the position preceding the returned move
         \E k \in 1..ChLen(ch) : wk.last[2] = Scratch(ch.hist[k]) /\ wk.last[3] = ch.moves[k]

\* a move list that fails at token k leaves exactly the k tokens before it pushed (C13 for push_uci_list)
Act_PushListPartial ==
  [][obs'[1] = "pushlist" => (ChLen(ch') = ChLen(ch) + obs'[3] /\ (obs'[2] = "err" => obs'[3] < 2))]_vars

\* action properties
\* a refused push changes nothing (C02 / C13)
Act_RefusedPushChangesNothing == [][obs'[1] = "push" /\ obs'[2] = "err" => ic' = ic /\ ch' = ch]_vars
\* a pop undoes exactly the latest accepted push and clears the outcome (C13)
Act_PopUndoesPush ==
  [][obs'[1] = "pop" /\ ch.moves # <<>> =>
        /\ ch'.moves = SubSeq(ch.moves, 1, ChLen(ch) - 1)
        /\ ch'.outcome = NoOutcome
        /\ ic'.board = Scratch(ch.hist[ChLen(ch)])]_vars
\* the walker never touches the chain (C17)
Act_WalkerLeavesChain == [][wk.active /\ wk'.active => ic' = ic /\ ch' = ch]_vars
\* next/prev return exactly (hist[i], moves[i]) (C17)
Act_WalkerReturns ==
  [][(obs'[1] = "wnext" /\ wk.i < ChLen(ch)) =>
        (wk'.last = <<"some", Scratch(ch.hist[wk.i + 1]), ch.moves[wk.i + 1]>> /\ wk'.i = wk.i + 1)]_vars
  /\ [][(obs'[1] = "wprev" /\ wk.i > 0) =>
        (wk'.last = <<"some", Scratch(ch.hist[wk.i]), ch.moves[wk.i]>> /\ wk'.i = wk.i - 1)]_vars
=============================================================================
