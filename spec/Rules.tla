------------------------------- MODULE Rules -------------------------------
(***************************************************************************)
(* REFERENCE LAYER: what the rules of chess are, written in the most       *)
(* obviously-correct style available (walk the grid; a move is legal iff   *)
(* after applying it the mover's king is not attacked).  This is the       *)
(* oracle the implementation is compared against.  It shares no mechanism  *)
(* with the implementation (no bitboards, no magic tables, no pin logic).  *)
(*                                                                         *)
(* Encodings (identical to the library's indices, so JSON needs no layer): *)
(*   cell   0 empty, 1..6 white P K N B R Q, 7..12 black P K N B R Q       *)
(*   colour 0 White, 1 Black                                               *)
(*   rights 0..15, bit (2*colour + side), side: 0 Queen, 1 King            *)
(*   ep     square of the pawn that has just made a double step, or -1     *)
(*   move   <<kind, cell, src, dst>>, kind 0 null, 1 simple, 2 O-O,        *)
(*          3 O-O-O, 4 double, 5 e.p., 6..9 promote N B R Q                *)
(*   position [cells : Sq -> 0..12, side, castling, ep, hm, fm]            *)
(***************************************************************************)
EXTENDS Geometry

P == 0  K == 1  N == 2  B == 3  R == 4  Q == 5
White == 0  Black == 1
MaxCounter == 65535

ColorOf(cell) == IF cell = 0 THEN -1 ELSE (cell - 1) \div 6
PieceOf(cell) == (cell - 1) % 6
MkCell(color, piece) == 1 + 6 * color + piece
Other(color) == 1 - color

KNull == 0  KSimple == 1  KCastleK == 2  KCastleQ == 3  KDouble == 4  KEnpassant == 5
KPromoN == 6  KPromoB == 7  KPromoR == 8  KPromoQ == 9
PromoKinds == 6..9
PromoPiece(kind) == kind - 4              \* 6 -> N(2) ... 9 -> Q(5)

\* per-colour geometry (rank indices)
HomeRank(color)     == IF color = White THEN 7 ELSE 0      \* rank 1 / rank 8
PawnStartRank(color) == IF color = White THEN 6 ELSE 1     \* rank 2 / rank 7
DoubleDstRank(color) == IF color = White THEN 4 ELSE 3     \* rank 4 / rank 5
PromoSrcRank(color) == IF color = White THEN 1 ELSE 6      \* rank 7 / rank 2
PromoDstRank(color) == IF color = White THEN 0 ELSE 7      \* rank 8 / rank 1
EpSrcRank(color)    == IF color = White THEN 3 ELSE 4      \* rank 5 / rank 4 (capturer and victim)
EpDstRank(color)    == IF color = White THEN 2 ELSE 5      \* rank 6 / rank 3

\* castling
SideQ == 0  SideK == 1
RightBit(color, side) == 2 * color + side
Pow2(n) == IF n = 0 THEN 1 ELSE IF n = 1 THEN 2 ELSE IF n = 2 THEN 4 ELSE 8
HasRight(cr, color, side) == (cr \div Pow2(RightBit(color, side))) % 2 = 1
RightsSet(cr) == {<<c, s>> \in {0, 1} \X {0, 1} : HasRight(cr, c, s)}
RightsOfSet(S) == LET b(c, s) == IF <<c, s>> \in S THEN Pow2(RightBit(c, s)) ELSE 0
                  IN b(0, 0) + b(0, 1) + b(1, 0) + b(1, 1)
KingHome(color) == MkSq(4, HomeRank(color))
RookHome(color, side) == MkSq(IF side = SideK THEN 7 ELSE 0, HomeRank(color))

Occ(c) == {s \in Sq : c[s] # 0}
MenOf(c, color) == {s \in Sq : c[s] # 0 /\ ColorOf(c[s]) = color}
KingSquares(c, color) == {s \in Sq : c[s] = MkCell(color, K)}
KingSq(c, color) == CHOOSE s \in Sq : c[s] = MkCell(color, K)

(***************************************************************************)
(* Attacks: the men of colour k that could capture on q by a pseudo-legal  *)
(* non-en-passant capture (the occupant of q itself is irrelevant).        *)
(***************************************************************************)
Attackers(c, q, k) ==
  LET occ == Occ(c)
      orth == UNION {FirstOcc(occ, q, d) : d \in OrthDirs}
      diag == UNION {FirstOcc(occ, q, d) : d \in DiagDirs}
  IN    {t \in KnightSet[q] : c[t] = MkCell(k, N)}
   \cup {t \in KingSet[q]   : c[t] = MkCell(k, K)}
   \cup {t \in PawnSources(q, k) : c[t] = MkCell(k, P)}
   \cup {t \in orth : c[t] = MkCell(k, R) \/ c[t] = MkCell(k, Q)}
   \cup {t \in diag : c[t] = MkCell(k, B) \/ c[t] = MkCell(k, Q)}

IsAttacked(c, q, k) == Attackers(c, q, k) # {}
InCheckCells(c, color) == IsAttacked(c, KingSq(c, color), Other(color))
InCheck(pos) == InCheckCells(pos.cells, pos.side)
Checkers(pos) == Attackers(pos.cells, KingSq(pos.cells, pos.side), Other(pos.side))

(***************************************************************************)
(* Pseudo-legal moves: everything the rules allow except for the ban on    *)
(* leaving one's own king attacked.  Castling requires the right, empty    *)
(* squares between king and rook, the king not in check and the crossed    *)
(* square not attacked (the destination square is a matter of legality).   *)
(***************************************************************************)
PawnTargets(s, dst, cell, color) ==
  IF RankOf(dst) = PromoDstRank(color)
  THEN {<<k, cell, s, dst>> : k \in PromoKinds}
  ELSE {<<KSimple, cell, s, dst>>}

PawnMoves(pos, s) ==
  LET c == pos.cells  color == pos.side  cell == c[s]  f == Fwd(color)
      one == Shift(s, 0, f)
      two == Shift(s, 0, 2 * f)
      caps == {t \in {Shift(s, -1, f), Shift(s, 1, f)} \ {-1} : c[t] # 0 /\ ColorOf(c[t]) = Other(color)}
  IN    (IF one # -1 /\ c[one] = 0 THEN PawnTargets(s, one, cell, color) ELSE {})
   \cup (IF RankOf(s) = PawnStartRank(color) /\ one # -1 /\ c[one] = 0 /\ two # -1 /\ c[two] = 0
         THEN {<<KDouble, cell, s, two>>} ELSE {})
   \cup UNION {PawnTargets(s, t, cell, color) : t \in caps}
   \cup (IF pos.ep # -1 /\ RankOf(pos.ep) = RankOf(s) /\ Abs(FileOf(pos.ep) - FileOf(s)) = 1
            /\ c[pos.ep] = MkCell(Other(color), P) /\ Shift(pos.ep, 0, f) # -1
            /\ c[Shift(pos.ep, 0, f)] = 0
         THEN {<<KEnpassant, cell, s, Shift(pos.ep, 0, f)>>} ELSE {})

LeaperMoves(pos, s, set) ==
  {<<KSimple, pos.cells[s], s, t>> : t \in {t \in set : ColorOf(pos.cells[t]) # pos.side}}

SliderMoves(pos, s, dirs) ==
  LET occ == Occ(pos.cells) IN
  {<<KSimple, pos.cells[s], s, t>> :
      t \in {t \in SlideAttacks(occ, s, dirs) : ColorOf(pos.cells[t]) # pos.side}}

CastlingMoves(pos) ==
  LET c == pos.cells  color == pos.side  r == HomeRank(color)  opp == Other(color)
      sq(f) == MkSq(f, r)
      king == MkCell(color, K)
  IN    (IF HasRight(pos.castling, color, SideK)
            /\ c[sq(4)] = king /\ c[sq(7)] = MkCell(color, R)
            /\ c[sq(5)] = 0 /\ c[sq(6)] = 0
            /\ ~IsAttacked(c, sq(4), opp) /\ ~IsAttacked(c, sq(5), opp)
         THEN {<<KCastleK, king, sq(4), sq(6)>>} ELSE {})
   \cup (IF HasRight(pos.castling, color, SideQ)
            /\ c[sq(4)] = king /\ c[sq(0)] = MkCell(color, R)
            /\ c[sq(1)] = 0 /\ c[sq(2)] = 0 /\ c[sq(3)] = 0
            /\ ~IsAttacked(c, sq(4), opp) /\ ~IsAttacked(c, sq(3), opp)
         THEN {<<KCastleQ, king, sq(4), sq(2)>>} ELSE {})

PieceMoves(pos, s) ==
  LET p == PieceOf(pos.cells[s]) IN
  CASE p = P -> PawnMoves(pos, s)
    [] p = N -> LeaperMoves(pos, s, KnightSet[s])
    [] p = K -> LeaperMoves(pos, s, KingSet[s])
    [] p = B -> SliderMoves(pos, s, DiagDirs)
    [] p = R -> SliderMoves(pos, s, OrthDirs)
    [] p = Q -> SliderMoves(pos, s, AllDirs)

PseudoLegal(pos) ==
  UNION {PieceMoves(pos, s) : s \in MenOf(pos.cells, pos.side)} \cup CastlingMoves(pos)

(***************************************************************************)
(* Applying a move.                                                        *)
(***************************************************************************)
ApplyCells(c, m) ==
  LET k == m[1]  cell == m[2]  s == m[3]  d == m[4]  color == ColorOf(cell)
      r == HomeRank(color)
  IN CASE k = KNull -> c
       [] k = KSimple \/ k = KDouble -> [c EXCEPT ![s] = 0, ![d] = cell]
       [] k = KCastleK -> [c EXCEPT ![MkSq(4, r)] = 0, ![MkSq(7, r)] = 0,
                                     ![MkSq(6, r)] = MkCell(color, K), ![MkSq(5, r)] = MkCell(color, R)]
       [] k = KCastleQ -> [c EXCEPT ![MkSq(4, r)] = 0, ![MkSq(0, r)] = 0,
                                     ![MkSq(2, r)] = MkCell(color, K), ![MkSq(3, r)] = MkCell(color, R)]
       [] k = KEnpassant -> [c EXCEPT ![s] = 0, ![d] = cell, ![Shift(d, 0, -Fwd(color))] = 0]
       [] k \in PromoKinds -> [c EXCEPT ![s] = 0, ![d] = MkCell(color, PromoPiece(k))]

\* The mover's king is not attacked after the move
LeavesKingSafe(pos, m) ==
  LET c2 == ApplyCells(pos.cells, m)
  IN ~IsAttacked(c2, KingSq(c2, pos.side), Other(pos.side))

Legal(pos) == {m \in PseudoLegal(pos) : LeavesKingSafe(pos, m)}

IsCaptureMove(pos, m) == m[1] = KEnpassant \/ pos.cells[m[4]] # 0
IsPromoMove(m) == m[1] \in PromoKinds

\* castling rights that survive a move from s to d: a right is lost iff the king's home
\* square or that rook's home square is the source or the destination of the move
RightsAfter(cr, s, d) ==
  RightsOfSet({cs \in RightsSet(cr) :
                  {s, d} \cap {KingHome(cs[1]), RookHome(cs[1], cs[2])} = {}})

Min2(a, b) == IF a < b THEN a ELSE b

ApplyMove(pos, m) ==
  LET k == m[1]  cell == m[2]  s == m[3]  d == m[4] IN
  [cells    |-> ApplyCells(pos.cells, m),
   side     |-> Other(pos.side),
   castling |-> IF k = KNull THEN pos.castling ELSE RightsAfter(pos.castling, s, d),
   ep       |-> IF k = KDouble THEN d ELSE -1,
   \* NULL MOVE (not a move of chess; the library offers it to engines): a deliberate transcription of
   \* what the code does - its destination field is square 0 (a8), so the clock is reset exactly when a8
   \* is occupied.  No listed property constrains this; it is modelled so that chains and walkers that
   \* contain null moves can be followed.
   hm       |-> IF (k # KNull /\ (PieceOf(cell) = P \/ pos.cells[d] # 0)) \/ (k = KNull /\ pos.cells[0] # 0) THEN 0
                ELSE Min2(pos.hm + 1, MaxCounter),
   fm       |-> IF pos.side = Black THEN Min2(pos.fm + 1, MaxCounter) ELSE pos.fm]

(***************************************************************************)
(* Outcome of a position (no history).                                     *)
(* Result encoding: <<"none">>, <<"win", colour, "checkmate">>,            *)
(* <<"draw", reason>> with reason in "stalemate", "insufficient",          *)
(* "moves75", "moves50", "repeat5", "repeat3".                             *)
(***************************************************************************)
NonKings(c) == {s \in Sq : c[s] # 0 /\ PieceOf(c[s]) # K}
Insufficient(c) ==
  LET X == NonKings(c) IN
     X = {}
  \/ (Cardinality(X) = 1 /\ \A s \in X : PieceOf(c[s]) = N)
  \/ ((\A s \in X : PieceOf(c[s]) = B) /\ (\A s, t \in X : SqColor(s) = SqColor(t)))

HasLegal(pos) == Legal(pos) # {}
Forced(pos) ==
  IF HasLegal(pos) THEN <<"none">>
  ELSE IF InCheck(pos) THEN <<"win", Other(pos.side), "checkmate">>
  ELSE <<"draw", "stalemate">>

\* n = number of occurrences of the current position in the game so far (1 without history)
Mandatory(pos, n) == (IF Insufficient(pos.cells) THEN {"insufficient"} ELSE {})
                \cup (IF pos.hm >= 150 THEN {"moves75"} ELSE {})
                \cup (IF n >= 5 THEN {"repeat5"} ELSE {})
Claimable(pos, n) == (IF pos.hm >= 100 THEN {"moves50"} ELSE {})
                \cup (IF n >= 3 THEN {"repeat3"} ELSE {})

\* The set of results the property allows
OutcomeAllowed(pos, n) ==
  IF Forced(pos) # <<"none">> THEN {Forced(pos)}
  ELSE IF Mandatory(pos, n) # {} THEN {<<"draw", r>> : r \in Mandatory(pos, n)}
  ELSE IF Claimable(pos, n) # {} THEN {<<"draw", r>> : r \in Claimable(pos, n)}
  ELSE {<<"none">>}

\* calc_draw_simple: material / clock only (no forced outcomes, no history)
DrawSimpleAllowed(pos) ==
  IF Mandatory(pos, 1) # {} THEN Mandatory(pos, 1)
  ELSE IF Claimable(pos, 1) # {} THEN Claimable(pos, 1)
  ELSE {"none"}

IsForcedOutcome(o) == o = <<"draw", "stalemate">> \/ (o[1] = "win" /\ o[3] = "checkmate")
IsMandatoryOutcome(o) == o[1] = "draw" /\ o[2] \in {"insufficient", "moves75", "repeat5"}
IsClaimableOutcome(o) == o[1] = "draw" /\ o[2] \in {"moves50", "repeat3"}
OutcomePasses(o, filter) ==
     IsForcedOutcome(o)
  \/ (filter \in {"strict", "relaxed"} /\ IsMandatoryOutcome(o))
  \/ (filter = "relaxed" /\ IsClaimableOutcome(o))

(***************************************************************************)
(* Well-formedness of a move tuple: geometric possibility for its kind.    *)
(***************************************************************************)
WellFormed(t) ==
  LET k == t[1]  cell == t[2]  s == t[3]  d == t[4] IN
  IF k = KNull THEN t = <<0, 0, 0, 0>>
  ELSE IF cell = 0 \/ s = d THEN FALSE
  ELSE LET color == ColorOf(cell)  p == PieceOf(cell)
           fdiff == Abs(FileOf(s) - FileOf(d)) IN
    CASE k = KSimple ->
           (CASE p = P -> /\ fdiff <= 1
                          /\ RankOf(s) \notin {0, 7} /\ RankOf(d) \notin {0, 7}
                          /\ RankOf(d) = RankOf(s) + Fwd(color)
              [] p = K -> d \in KingSet[s]
              [] p = N -> d \in KnightSet[s]
              [] p = B -> SameDiag(s, d)
              [] p = R -> SameLine(s, d)
              [] p = Q -> SameDiag(s, d) \/ SameLine(s, d))
      [] k = KCastleK -> p = K /\ s = KingHome(color) /\ d = MkSq(6, HomeRank(color))
      [] k = KCastleQ -> p = K /\ s = KingHome(color) /\ d = MkSq(2, HomeRank(color))
      [] k = KDouble -> p = P /\ FileOf(s) = FileOf(d) /\ RankOf(s) = PawnStartRank(color)
                        /\ RankOf(d) = DoubleDstRank(color)
      [] k = KEnpassant -> p = P /\ RankOf(s) = EpSrcRank(color) /\ RankOf(d) = EpDstRank(color)
                           /\ fdiff = 1
      [] k \in PromoKinds -> p = P /\ RankOf(s) = PromoSrcRank(color)
                             /\ RankOf(d) = PromoDstRank(color) /\ fdiff <= 1
      [] OTHER -> FALSE

(***************************************************************************)
(* Validity of raw boards.                                                 *)
(***************************************************************************)
\* error tags as <<name, arg>>
Conditions(raw) ==
  LET c == raw.cells  s == raw.side IN
     (IF raw.ep # -1 /\ RankOf(raw.ep) # EpSrcRank(s) THEN {<<"InvalidEnpassant", raw.ep>>} ELSE {})
  \cup {<<"TooManyPieces", k>> : k \in {k \in {0, 1} : Cardinality(MenOf(c, k)) > 16}}
  \cup {<<"NoKing", k>> : k \in {k \in {0, 1} : KingSquares(c, k) = {}}}
  \cup {<<"TooManyKings", k>> : k \in {k \in {0, 1} : Cardinality(KingSquares(c, k)) > 1}}
  \cup {<<"InvalidPawn", q>> : q \in {q \in Sq : c[q] # 0 /\ PieceOf(c[q]) = P /\ RankOf(q) \in {0, 7}}}
  \cup (IF Cardinality(KingSquares(c, 0)) = 1 /\ Cardinality(KingSquares(c, 1)) = 1
           /\ IsAttacked(c, KingSq(c, Other(s)), s)
        THEN {<<"OpponentKingAttacked", 0>>} ELSE {})

Normalise(raw) ==
  LET c == raw.cells  s == raw.side
      keep == {cs \in RightsSet(raw.castling) :
                  c[KingHome(cs[1])] = MkCell(cs[1], K) /\ c[RookHome(cs[1], cs[2])] = MkCell(cs[1], R)}
      epOk == raw.ep # -1 /\ c[raw.ep] = MkCell(Other(s), P)
              /\ Shift(raw.ep, 0, Fwd(s)) # -1 /\ c[Shift(raw.ep, 0, Fwd(s))] = 0
  IN [raw EXCEPT !.castling = RightsOfSet(keep), !.ep = IF epOk THEN raw.ep ELSE -1]

IsValid(pos) == Conditions(pos) = {} /\ Normalise(pos) = pos

\* Identity used for repetition: everything but the counters
Key(pos) == <<pos.cells, pos.side, pos.castling, pos.ep>>

(***************************************************************************)
(* Symmetries.                                                             *)
(***************************************************************************)
SwapCell(cell) == IF cell = 0 THEN 0 ELSE IF cell <= 6 THEN cell + 6 ELSE cell - 6
SwapRights(cr) == RightsOfSet({<<Other(cs[1]), cs[2]>> : cs \in RightsSet(cr)})
MirrorPos(pos) ==
  [cells |-> [s \in Sq |-> SwapCell(pos.cells[MirrorV(s)])],
   side |-> Other(pos.side), castling |-> SwapRights(pos.castling),
   ep |-> IF pos.ep = -1 THEN -1 ELSE MirrorV(pos.ep), hm |-> pos.hm, fm |-> pos.fm]
MirrorMove(m) == IF m[1] = KNull THEN m ELSE <<m[1], SwapCell(m[2]), MirrorV(m[3]), MirrorV(m[4])>>
\* left-right flip (only meaningful without castling rights)
FlopPos(pos) ==
  [cells |-> [s \in Sq |-> pos.cells[MirrorH(s)]],
   side |-> pos.side, castling |-> pos.castling,
   ep |-> IF pos.ep = -1 THEN -1 ELSE MirrorH(pos.ep), hm |-> pos.hm, fm |-> pos.fm]
FlopMove(m) == IF m[1] = KNull THEN m ELSE <<m[1], m[2], MirrorH(m[3]), MirrorH(m[4])>>
=============================================================================
