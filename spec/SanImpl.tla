------------------------------ MODULE SanImpl ------------------------------
(***************************************************************************)
(* SAN as the code does it (moves/san.rs + the two candidate generators of *)
(* movegen.rs), over the implementation-shaped board of BoardImpl:         *)
(*                                                                         *)
(*   Data::from_move      a move -> parsed-SAN record (AmbigDetector)      *)
(*   Data::do_fmt         record -> text                                   *)
(*   Data::into_move      record -> move or error (AmbigSearcher,          *)
(*                        Move::new + Move::validate for the pawn forms)   *)
(*                                                                         *)
(* Records use the vocabulary of Notation!SanDescribe (form "castle",      *)
(* "pawn", "pawncap", "pawnshort", "piece"), plus `cap` on piece records.  *)
(* Deliberate, NAMED deviations of the code from the reference reading:    *)
(*   CaptureExpected   "Nxe5" onto an empty square is refused, although    *)
(*                     the reference reader ignores capture marks;         *)
(*   (none other found: see Obl_SanRead)                                   *)
(* The obligations at the end relate this layer to the reference layer     *)
(* (Notation): they are what C09 says, at the design level; TLC checks     *)
(* them on the structured families (MC_SanImpl).                           *)
(***************************************************************************)
EXTENDS BoardImpl, Types

\* movegen::san_candidates behind LegalFilter (DefaultPrechecker)
ImplSanCandidates(b, piece, dst, EpFix) ==
  LET color == b.r.side  cell == MkCell(color, piece) IN
  IF ColorOf(b.r.cells[dst]) = color THEN {}
  ELSE LET mask == CASE piece = K -> KingSet[dst]
                     [] piece = N -> KnightSet[dst]
                     [] piece = B -> ImplBishop(dst, b.all)
                     [] piece = R -> ImplRook(dst, b.all)
                     [] piece = Q -> ImplBishop(dst, b.all) \cup ImplRook(dst, b.all)
       IN {m \in {<<KSimple, cell, s, dst>> : s \in mask \cap b.pieces[cell]} : ImplIsLegal(b, m, "default", EpFix)}

\* movegen::san_pawn_capture_candidates(src file, dst file, promote) behind LegalFilter
ImplPawnCapCandidates(b, sf, df, promo, EpFix) ==
  LET color == b.r.side  f == Fwd(color)  pawn == MkCell(color, P)
      pawns == {s \in b.pieces[pawn] : FileOf(s) = sf /\ ((promo # 0) <=> (RankOf(s) = PromoSrcRank(color)))}
      allowed == ColorSet(b, Other(color))
      kind == IF promo # 0 THEN promo ELSE KSimple
      left == IF sf = df + 1 THEN {<<kind, pawn, s, Shift(s, -1, f)>> : s \in {s \in pawns : Shift(s, -1, f) \in allowed}} ELSE {}
      right == IF sf + 1 = df THEN {<<kind, pawn, s, Shift(s, 1, f)>> : s \in {s \in pawns : Shift(s, 1, f) \in allowed}} ELSE {}
      ep == IF b.r.ep # -1 /\ FileOf(b.r.ep) = df /\ promo = 0
            THEN LET e == b.r.ep  d == e + 8 * f IN      \* raw index arithmetic, as in the code
                    (IF sf + 1 = df /\ b.r.cells[e - 1] = pawn THEN {<<KEnpassant, pawn, e - 1, d>>} ELSE {})
               \cup (IF sf = df + 1 /\ b.r.cells[e + 1] = pawn THEN {<<KEnpassant, pawn, e + 1, d>>} ELSE {})
            ELSE {}
  IN {m \in left \cup right \cup ep : ImplIsLegal(b, m, "default", EpFix)}

\* Move::validate: semilegal, then legal without prefilter
ImplValidate(b, m, EpFix) == ImplSemiValidate(b, m, {}) /\ ImplIsLegal(b, m, "nil", EpFix)

(***************************************************************************)
(* Data::from_move                                                         *)
(***************************************************************************)
ImplSanData(b, m, EpFix) ==
  LET k == m[1]  pc == PieceOf(m[2])  s == m[3]  d == m[4]
      promo == IF k \in PromoKinds THEN k ELSE 0 IN
  CASE k = KDouble -> [form |-> "pawn", dst |-> d, promo |-> 0]
    [] k = KEnpassant -> [form |-> "pawncap", srcFile |-> FileOf(s), dst |-> d, promo |-> 0]
    [] k \in {KCastleK, KCastleQ} -> [form |-> "castle", kind |-> k]
    [] pc = P -> IF FileOf(s) = FileOf(d) THEN [form |-> "pawn", dst |-> d, promo |-> promo]
                 ELSE [form |-> "pawncap", srcFile |-> FileOf(s), dst |-> d, promo |-> promo]
    [] OTHER ->
         \* AmbigDetector fed with the legal candidates
         LET others == ImplSanCandidates(b, pc, d, EpFix) \ {m}
             simAny == others # {}
             simFile == \E o \in others : FileOf(o[3]) = FileOf(s)
             simRank == \E o \in others : RankOf(o[3]) = RankOf(s)
         IN [form |-> "piece", piece |-> pc,
             fileHint |-> IF simAny /\ (simRank \/ ~simFile) THEN FileOf(s) ELSE -1,
             rankHint |-> IF simAny /\ simFile THEN RankOf(s) ELSE -1,
             cap |-> b.r.cells[d] # 0, dst |-> d]

\* Data::do_fmt (algebraic theme), without the check mark
PromoTxt(promo) == IF promo = 0 THEN <<>> ELSE <<ChEq, PieceLetter(PromoPiece(promo))>>
ImplSanText(d) ==
  CASE d.form = "castle" -> IF d.kind = KCastleK THEN Txt("O-O") ELSE Txt("O-O-O")
    [] d.form = "pawn" -> SqText(d.dst) \o PromoTxt(d.promo)
    [] d.form = "pawncap" -> <<FileCh(d.srcFile), ChX>> \o SqText(d.dst) \o PromoTxt(d.promo)
    [] d.form = "pawnshort" -> <<FileCh(d.srcFile), FileCh(d.dstFile)>> \o PromoTxt(d.promo)
    [] d.form = "piece" -> <<PieceLetter(d.piece)>>
                           \o (IF d.fileHint # -1 THEN <<FileCh(d.fileHint)>> ELSE <<>>)
                           \o (IF d.rankHint # -1 THEN <<RankCh(d.rankHint)>> ELSE <<>>)
                           \o (IF d.cap THEN <<ChX>> ELSE <<>>) \o SqText(d.dst)

\* san::Move::from_move: the check mark from the position after the move
ImplSanSuffix(b, m, EpFix) ==
  LET nb == DoMake(b, m).board IN
  IF ~ImplIsCheck(nb) THEN <<>> ELSE IF ImplHasLegalMoves(nb, EpFix) THEN <<ChPlus>> ELSE <<ChHash>>

(***************************************************************************)
(* Data::into_move.  Result: [ok |-> TRUE, m |-> move] or                  *)
(* [ok |-> FALSE, err |-> name].                                           *)
(***************************************************************************)
SErr(name) == [ok |-> FALSE, err |-> name]
SOk(m) == [ok |-> TRUE, m |-> m]
Searched(C) == IF C = {} THEN SErr("NotFound")
               ELSE IF Cardinality(C) = 1 THEN SOk(CHOOSE m \in C : TRUE) ELSE SErr("Ambiguity")
Validated(b, m, EpFix) ==
  IF ~WellFormed(m) THEN SErr("NotWellFormed")
  ELSE IF ~ImplSemiValidate(b, m, {}) THEN SErr("NotSemilegal")
  ELSE IF ~ImplIsLegal(b, m, "nil", EpFix) THEN SErr("NotLegal") ELSE SOk(m)

ImplSanIntoMove(b, d, EpFix) ==
  LET color == b.r.side  f == Fwd(color)  pawn == MkCell(color, P) IN
  CASE d.form = "castle" -> Validated(b, CastlingMoveOf(color, IF d.kind = KCastleK THEN SideK ELSE SideQ), EpFix)
    [] d.form = "pawn" ->
         IF RankOf(d.dst) = PromoDstRank(Other(color)) THEN SErr("NotWellFormed")
         ELSE LET s1 == d.dst - 8 * f
                  dbl == b.r.cells[s1] = 0
                  src == IF dbl THEN MkSq(FileOf(d.dst), PawnStartRank(color)) ELSE s1
                  kind == IF d.promo # 0 THEN d.promo ELSE IF dbl THEN KDouble ELSE KSimple
              IN Validated(b, <<kind, pawn, src, d.dst>>, EpFix)
    [] d.form = "pawncap" ->
         IF RankOf(d.dst) = PromoDstRank(Other(color)) THEN SErr("NotWellFormed")
         ELSE LET isEp == d.dst = EpDestOf(color, b.r.ep) /\ b.r.ep # -1
                  src == MkSq(d.srcFile, RankOf(d.dst)) - 8 * f
                  kind == IF d.promo # 0 THEN d.promo ELSE IF isEp THEN KEnpassant ELSE KSimple
              IN IF ~isEp /\ b.r.cells[d.dst] = 0 THEN SErr("CaptureExpected")
                 ELSE Validated(b, <<kind, pawn, src, d.dst>>, EpFix)
    [] d.form = "pawnshort" -> Searched(ImplPawnCapCandidates(b, d.srcFile, d.dstFile, d.promo, EpFix))
    [] d.form = "piece" ->
         IF d.cap /\ b.r.cells[d.dst] = 0 THEN SErr("CaptureExpected")
         ELSE Searched({m \in ImplSanCandidates(b, d.piece, d.dst, EpFix) :
                          /\ (d.fileHint # -1 => FileOf(m[3]) = d.fileHint)
                          /\ (d.rankHint # -1 => RankOf(m[3]) = d.rankHint)})

(***************************************************************************)
(* uci::Move::into_move (the "basic" UCI reader): the kind is guessed from *)
(* the board - promotion suffix, double step by ranks, e.p. as "a pawn     *)
(* changing file onto an empty square", castling as "the king going from   *)
(* its home to the g-/c-file square" - then Move::new checks well-         *)
(* formedness; the semilegal and legal readers add the validators.         *)
(***************************************************************************)
ImplUciIntoMove(b, src, dst, promo) ==
  LET color == b.r.side  sc == b.r.cells[src] IN
  IF ColorOf(sc) # color THEN SErr("NotWellFormed")
  ELSE LET pc == PieceOf(sc)
           kind == IF promo # 0 THEN promo
                   ELSE IF pc = P THEN
                          (IF RankOf(src) = PawnStartRank(color) /\ RankOf(dst) = DoubleDstRank(color) THEN KDouble
                           ELSE IF FileOf(src) # FileOf(dst) /\ b.r.cells[dst] = 0 THEN KEnpassant
                           ELSE KSimple)
                   ELSE IF pc = K /\ src = KingHome(color) /\ dst = MkSq(6, HomeRank(color)) THEN KCastleK
                   ELSE IF pc = K /\ src = KingHome(color) /\ dst = MkSq(2, HomeRank(color)) THEN KCastleQ
                   ELSE KSimple
           m == <<kind, sc, src, dst>>
       IN IF src # dst /\ WellFormed(m) THEN SOk(m) ELSE SErr("NotWellFormed")

\* C10 at the design level: over every (source, destination, promotion) triple
Obl_Uci(b, EpFix) ==
  LET PL == PseudoLegal(b.r)  LS == Legal(b.r) IN
  \A src \in Sq : \A dst \in Sq : \A promo \in {0} \cup PromoKinds :
    LET r == ImplUciIntoMove(b, src, dst, promo)
        semi == r.ok /\ ImplSemiValidate(b, r.m, {})
        legal == semi /\ ImplIsLegal(b, r.m, "nil", EpFix)
        u == [src |-> src, dst |-> dst, promo |-> promo]
    IN /\ r.ok => (Triple(r.m) = <<src, dst, promo>> /\ r.m[2] = b.r.cells[src])
       /\ semi <=> (WithTriple(PL, u) # {})
       /\ semi => WithTriple(PL, u) = {r.m}
       /\ legal <=> (WithTriple(LS, u) # {})

(***************************************************************************)
(* Obligations (C09 at the design level).                                  *)
(***************************************************************************)
\* writing: the text of every legal move is the standard one
Obl_SanWrite(b, EpFix) ==
  LET pos == b.r  LS == Legal(pos) IN
  \A m \in LS : ImplSanText(ImplSanData(b, m, EpFix)) \o ImplSanSuffix(b, m, EpFix) = SanOfIn(pos, LS, m)

\* reading back what was written gives the move
Obl_SanRoundTrip(b, EpFix) ==
  \A m \in Legal(b.r) : ImplSanIntoMove(b, ImplSanData(b, m, EpFix), EpFix) = SOk(m)

\* the records a text can denote in this position: every hint combination for every own piece kind and every
\* destination some legal move (of any man) reaches, plus one unreachable destination; every pawn form
Universe(b) ==
  LET LS == Legal(b.r)
      dsts == {m[4] : m \in LS} \cup (IF {m[4] : m \in LS} = Sq THEN {} ELSE {CHOOSE x \in Sq \ {m[4] : m \in LS} : TRUE})
      own == b.all \cap ColorSet(b, b.r.side)
      fh == {-1} \cup {FileOf(s) : s \in own}
      rh == {-1} \cup {RankOf(s) : s \in own}
  IN   {[form |-> "castle", kind |-> k] : k \in {KCastleK, KCastleQ}}
  \cup {[form |-> "pawn", dst |-> d, promo |-> pr] : d \in dsts, pr \in {0} \cup PromoKinds}
  \cup {[form |-> "pawncap", srcFile |-> sf, dst |-> d, promo |-> pr] : sf \in 0..7, d \in dsts, pr \in {0, KPromoQ, KPromoN}}
  \cup {[form |-> "pawnshort", srcFile |-> sf, dstFile |-> df, promo |-> pr] : sf \in 0..7, df \in 0..7, pr \in {0, KPromoQ}}
  \cup {[form |-> "piece", piece |-> pc, fileHint |-> x, rankHint |-> y, cap |-> c, dst |-> d] :
          pc \in {K, N, B, R, Q}, x \in fh, y \in rh, c \in BOOLEAN, d \in dsts}

\* reading: sound (a returned move is legal and agrees with the record; it is the ONLY legal move that agrees),
\* reports ambiguity rather than choosing, and complete up to the named deviation
Obl_SanRead(b, EpFix) ==
  LET LS == Legal(b.r) IN
  \A d \in Universe(b) :
    LET r == ImplSanIntoMove(b, d, EpFix)  RS == SanResolveIn(LS, d) IN
    /\ r.ok => (r.m \in RS /\ RS = {r.m})
    /\ Cardinality(RS) > 1 => ~r.ok
    /\ (Cardinality(RS) = 1 /\ ~r.ok) =>
          \* the only refusals of a uniquely described legal move: a capture mark on a non-capture
          (r.err = "CaptureExpected" /\ (IF d.form = "piece" THEN d.cap ELSE TRUE)
             /\ LET m == CHOOSE m \in RS : TRUE IN b.r.cells[m[4]] = 0 /\ m[1] # KEnpassant)
=============================================================================
