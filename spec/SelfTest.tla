------------------------------ MODULE SelfTest ------------------------------
(***************************************************************************)
(* Pins the reference layer (Rules) to facts that do not come from the     *)
(* repository under test: published perft counts of six standard           *)
(* positions, and internal symmetries of the oracle itself.                *)
(* Run:  tlc -config SelfTest.cfg SelfTest.tla   (env PERFT_DEPTH=1..3)    *)
(***************************************************************************)
EXTENDS JsonPos, Json, IOUtils, TLC, FiniteSetsExt

Cases == JsonDeserialize("data/perft.json")
Depth == IF "PERFT_DEPTH" \in DOMAIN IOEnv THEN atoi(IOEnv.PERFT_DEPTH) ELSE 2

RECURSIVE Perft(_, _)
Perft(pos, d) ==
  IF d = 0 THEN 1
  ELSE IF d = 1 THEN Cardinality(Legal(pos))
  ELSE FoldSet(LAMBDA m, acc : acc + Perft(ApplyMove(pos, m), d - 1), 0, Legal(pos))

PerftOK(i) ==
  LET cs == Cases[i]  pos == PosOfJson(cs.pos) IN
  \A d \in 1..Depth :
     LET got == Perft(pos, d) IN
     IF got = cs.perft[d] THEN TRUE
     ELSE PrintT(<<"SELFTEST-FAIL perft", cs.name, d, got, cs.perft[d]>>) /\ FALSE

\* the oracle is colour-symmetric and (without castling) left-right symmetric
MirrorOK(pos) ==
  /\ {MirrorMove(m) : m \in Legal(pos)} = Legal(MirrorPos(pos))
  /\ InCheck(pos) = InCheck(MirrorPos(pos))
  /\ IsValid(pos) = IsValid(MirrorPos(pos))
FlopOK(pos) ==
  LET q == [pos EXCEPT !.castling = 0] IN
  {FlopMove(m) : m \in Legal(q)} = Legal(FlopPos(q))

SymOK(i) ==
  LET pos == PosOfJson(Cases[i].pos)
      succ == {ApplyMove(pos, m) : m \in Legal(pos)} \cup {pos}
  IN \A p \in succ :
       IF MirrorOK(p) /\ FlopOK(p) /\ IsValid(p) THEN TRUE
       ELSE PrintT(<<"SELFTEST-FAIL symmetry/validity", Cases[i].name, p>>) /\ FALSE

ASSUME \A i \in 1..Len(Cases) : PerftOK(i)
ASSUME \A i \in 1..Len(Cases) : SymOK(i)
ASSUME PrintT(<<"SELFTEST-OK", Len(Cases), Depth>>)

VARIABLE x
Init == x = 0
Next == UNCHANGED x
=============================================================================
