------------------------------- MODULE Trace -------------------------------
(***************************************************************************)
(* Trace validation: one recorded event of the real library per step.      *)
(*   TRACE = path of an ndjson file, PROP = property id whose conjuncts    *)
(*   are checked (so that a violation is attributed to the property whose  *)
(*   statement it contradicts).                                            *)
(* Every event is fully logged, so the search is linear.  A non-conforming *)
(* event does not stop the trace: it is reported with                      *)
(*     <<"NONCONF", line, {failed conjunct names}>>                        *)
(* and validation continues, so one bad line does not hide the rest.       *)
(* Acceptance: POSTCONDITION Accepted (all lines consumed).                *)
(***************************************************************************)
EXTENDS JsonPos, Json, IOUtils, TLC

Recs == ndJsonDeserialize(IOEnv.TRACE)
Prop == IOEnv.PROP

VARIABLE l          \* index of the next line to consume

Has(e, f) == f \in DOMAIN e
FailedOf(checks) == {c[1] : c \in {c \in checks : ~c[2]}}
SetOfMoves(q) == MovesOfJson(q)

(***************************************************************************)
(* Pure position queries ("q" events).                                     *)
(***************************************************************************)
C01Checks(e) ==
  LET pos == PosOfJson(e.pos)
      L == Legal(pos)
      cap(m) == IsCaptureMove(pos, m)
  IN IF Has(e, "panic") THEN {<<"panic", FALSE>>} ELSE
     {<<"input_valid", IsValid(pos)>>,
      <<"legal_all", SetOfMoves(e.legal_all) = L /\ NoDup(e.legal_all)>>,
      <<"legal_capture", SetOfMoves(e.legal_capture) = {m \in L : cap(m)} /\ NoDup(e.legal_capture)>>,
      <<"legal_simple", SetOfMoves(e.legal_simple) = {m \in L : ~cap(m)} /\ NoDup(e.legal_simple)>>,
      <<"legal_simple_no_promote",
          SetOfMoves(e.legal_simple_no_promote) = {m \in L : ~cap(m) /\ ~IsPromoMove(m)}
          /\ NoDup(e.legal_simple_no_promote)>>,
      <<"legal_simple_promote",
          SetOfMoves(e.legal_simple_promote) = {m \in L : ~cap(m) /\ IsPromoMove(m)}
          /\ NoDup(e.legal_simple_promote)>>,
      <<"validate_ok", SetOfMoves(e.validate_ok) = L>>,
      <<"trymake_ok", SetOfMoves(e.trymake_ok) = L>>,
      <<"legal_unchecked_ok", SetOfMoves(e.legal_unchecked_ok) = L>>,
      <<"make_ok", SetOfMoves(e.make_ok) = L>>}

C03Checks(e) ==
  LET pos == PosOfJson(e.pos)
      L == Legal(pos)
      okOne(s) == LET m == MoveOfJson(s.m) IN
                  m \in L => (s.res = "ok" /\ PosOfJson(s.pos) = ApplyMove(pos, m))
  IN IF Has(e, "panic") THEN {<<"panic", FALSE>>} ELSE
     {<<"succ", \A i \in 1..Len(e.succ) : okOne(e.succ[i])>>,
      <<"succ_covers_legal", L \subseteq {MoveOfJson(e.succ[i].m) : i \in 1..Len(e.succ)}>>}

C06Checks(e) ==
  LET pos == PosOfJson(e.pos)
      PL == PseudoLegal(pos)
      all == SetOfMoves(e.semi_all)
      capt == SetOfMoves(e.semi_capture)
      simp == SetOfMoves(e.semi_simple)
      nopr == SetOfMoves(e.semi_simple_no_promote)
      prom == SetOfMoves(e.semi_simple_promote)
      cap(m) == IsCaptureMove(pos, m)
  IN IF Has(e, "panic") THEN {<<"panic", FALSE>>} ELSE
     {<<"semi_all", all = PL /\ NoDup(e.semi_all)>>,
      <<"semi_validate_ok", SetOfMoves(e.semi_validate_ok) = PL>>,
      <<"well_formed_and_src_cell", \A m \in all : WellFormed(m) /\ m[2] = pos.cells[m[3]]>>,
      <<"all_is_capture_plus_simple",
          capt \cap simp = {} /\ capt \cup simp = all
          /\ NoDup(e.semi_capture) /\ NoDup(e.semi_simple)>>,
      <<"simple_is_promote_plus_nopromote",
          prom \cap nopr = {} /\ prom \cup nopr = simp
          /\ NoDup(e.semi_simple_promote) /\ NoDup(e.semi_simple_no_promote)>>,
      <<"capture_semantics", capt = {m \in PL : cap(m)}>>,
      <<"promote_semantics", prom = {m \in PL : ~cap(m) /\ IsPromoMove(m)}>>,
      <<"null_not_semilegal", e.null_semilegal = FALSE>>,
      <<"legal_within_pseudolegal",
          Legal(pos) \subseteq PL /\ \A m \in PL \ Legal(pos) : ~LeavesKingSafe(pos, m)>>}

C07Checks(e) ==
  LET pos == PosOfJson(e.pos) IN
  IF Has(e, "panic") THEN {<<"panic", FALSE>>} ELSE
     {<<"has_legal", e.has_legal = HasLegal(pos) /\ e.has_legal_fn = HasLegal(pos)>>,
      <<"outcome", e.outcome \in OutcomeAllowed(pos, 1)>>,
      <<"draw_simple", e.draw_simple \in DrawSimpleAllowed(pos)>>,
      <<"is_check", e.is_check = InCheck(pos)>>}

C16Checks(e) ==
  LET pos == PosOfJson(e.pos)  c == pos.cells IN
  IF Has(e, "panic") THEN {<<"panic", FALSE>>} ELSE
     {<<"attacked", \A k \in {0, 1} :
                       SeqToSet(e.attacked[k + 1]) = {q \in Sq : IsAttacked(c, q, k)}>>,
      <<"attackers", \A k \in {0, 1} : \A q \in Sq :
                       SeqToSet(e.attackers[k + 1][q + 1]) = Attackers(c, q, k)>>,
      <<"is_check", e.is_check = InCheck(pos)>>,
      <<"checkers", SeqToSet(e.checkers) = Checkers(pos)>>,
      <<"king_pos", e.king_pos[1] = KingSq(c, 0) /\ e.king_pos[2] = KingSq(c, 1)>>,
      <<"opp_king_attacked",
          e.opp_king_attacked = IsAttacked(c, KingSq(c, Other(pos.side)), pos.side)>>}

QChecks(e) ==
  CASE Prop = "C01" -> C01Checks(e)
    [] Prop = "C03" -> C03Checks(e)
    [] Prop = "C06" -> C06Checks(e)
    [] Prop = "C07" -> C07Checks(e)
    [] Prop = "C16" -> C16Checks(e)

EventChecks(e) ==
  CASE e.ev = "q" -> QChecks(e)
    [] OTHER -> {<<"unknown_event", FALSE>>}

Init == l = 1

Next ==
  /\ l <= Len(Recs)
  /\ LET failed == FailedOf(EventChecks(Recs[l])) IN
       IF failed = {} THEN TRUE
       ELSE PrintT("NONCONF " \o ToString(l) \o " " \o ToString(failed))  \* one atomic string: never line-wrapped
  /\ l' = l + 1

Spec == Init /\ [][Next]_l

Accepted ==
  LET d == TLCGet("stats").diameter IN
  IF d = Len(Recs) + 1 THEN PrintT("TRACE-ACCEPTED " \o ToString(Len(Recs)))
  ELSE PrintT("TRACE-REJECTED consumed " \o ToString(d - 1) \o " of " \o ToString(Len(Recs))) /\ FALSE
=============================================================================
