------------------------------- MODULE Trace -------------------------------
(***************************************************************************)
(* Trace validation: one recorded event of the real library per step.      *)
(*   TRACE = path of an ndjson file, PROP = property id whose conjuncts    *)
(*   are checked (so that a violation is attributed to the property whose  *)
(*   statement it contradicts).                                            *)
(* Every event is fully logged, so the search is linear.  A non-conforming *)
(* event does not stop the trace: it is reported with                      *)
(*     <<"NONCONF", line, {failed conjunct names}>>                        *)
(* and validation continues, so one bad line does not hide the rest.       *)
(* Acceptance: POSTCONDITION Accepted (all lines consumed).                *)
(***************************************************************************)
EXTENDS BoardImpl, Json, IOUtils, TLC

Recs == ndJsonDeserialize(IOEnv.TRACE)
Prop == IOEnv.PROP

VARIABLES l,        \* index of the next line to consume
          live,     \* model board (BoardImpl) of the stand-alone Board session, or <<>>
          stk,      \* its undo stack: <<[m, u, before (model board), obs (logged state before the make)]>>
          obs,      \* the last logged state [pos, der] of the session
          seen,     \* history variable of the session: Key(position) -> logged hash
          dead      \* TRUE after the session diverged from the model (skipped until the next reset)

\* JSON conversions (JSON arrays are 1-based sequences)
PosOfJson(j) == [cells |-> [s \in Sq |-> j.cells[s + 1]], side |-> j.side,
                 castling |-> j.castling, ep |-> j.ep, hm |-> j.hm, fm |-> j.fm]
MoveOfJson(a) == <<a[1], a[2], a[3], a[4]>>
SeqToSet(q) == {q[i] : i \in 1..Len(q)}
MovesOfJson(q) == {MoveOfJson(q[i]) : i \in 1..Len(q)}
NoDup(q) == Cardinality(SeqToSet(q)) = Len(q)

Has(e, f) == f \in DOMAIN e
FailedOf(checks) == {c[1] : c \in {c \in checks : ~c[2]}}
SetOfMoves(q) == MovesOfJson(q)

(***************************************************************************)
(* Pure position queries ("q" events).                                     *)
(***************************************************************************)
C01Checks(e) ==
  LET pos == PosOfJson(e.pos)
      L == Legal(pos)
      cap(m) == IsCaptureMove(pos, m)
  IN IF Has(e, "panic") THEN {<<"panic", FALSE>>} ELSE
     {<<"input_valid", IsValid(pos)>>,
      <<"legal_all", SetOfMoves(e.legal_all) = L /\ NoDup(e.legal_all)>>,
      <<"legal_capture", SetOfMoves(e.legal_capture) = {m \in L : cap(m)} /\ NoDup(e.legal_capture)>>,
      <<"legal_simple", SetOfMoves(e.legal_simple) = {m \in L : ~cap(m)} /\ NoDup(e.legal_simple)>>,
      <<"legal_simple_no_promote",
          SetOfMoves(e.legal_simple_no_promote) = {m \in L : ~cap(m) /\ ~IsPromoMove(m)}
          /\ NoDup(e.legal_simple_no_promote)>>,
      <<"legal_simple_promote",
          SetOfMoves(e.legal_simple_promote) = {m \in L : ~cap(m) /\ IsPromoMove(m)}
          /\ NoDup(e.legal_simple_promote)>>,
      <<"validate_ok", SetOfMoves(e.validate_ok) = L>>,
      <<"trymake_ok", SetOfMoves(e.trymake_ok) = L>>,
      <<"legal_unchecked_ok", SetOfMoves(e.legal_unchecked_ok) = L>>,
      <<"make_ok", SetOfMoves(e.make_ok) = L>>}

C03Checks(e) ==
  LET pos == PosOfJson(e.pos)
      L == Legal(pos)
      okOne(s) == LET m == MoveOfJson(s.m) IN
                  m \in L => (s.res = "ok" /\ PosOfJson(s.pos) = ApplyMove(pos, m))
  IN IF Has(e, "panic") THEN {<<"panic", FALSE>>} ELSE
     {<<"succ", \A i \in 1..Len(e.succ) : okOne(e.succ[i])>>,
      <<"succ_covers_legal", L \subseteq {MoveOfJson(e.succ[i].m) : i \in 1..Len(e.succ)}>>}

C06Checks(e) ==
  LET pos == PosOfJson(e.pos)
      PL == PseudoLegal(pos)
      all == SetOfMoves(e.semi_all)
      capt == SetOfMoves(e.semi_capture)
      simp == SetOfMoves(e.semi_simple)
      nopr == SetOfMoves(e.semi_simple_no_promote)
      prom == SetOfMoves(e.semi_simple_promote)
      cap(m) == IsCaptureMove(pos, m)
  IN IF Has(e, "panic") THEN {<<"panic", FALSE>>} ELSE
     {<<"semi_all", all = PL /\ NoDup(e.semi_all)>>,
      <<"semi_validate_ok", SetOfMoves(e.semi_validate_ok) = PL>>,
      <<"well_formed_and_src_cell", \A m \in all : WellFormed(m) /\ m[2] = pos.cells[m[3]]>>,
      <<"all_is_capture_plus_simple",
          capt \cap simp = {} /\ capt \cup simp = all
          /\ NoDup(e.semi_capture) /\ NoDup(e.semi_simple)>>,
      <<"simple_is_promote_plus_nopromote",
          prom \cap nopr = {} /\ prom \cup nopr = simp
          /\ NoDup(e.semi_simple_promote) /\ NoDup(e.semi_simple_no_promote)>>,
      <<"capture_semantics", capt = {m \in PL : cap(m)}>>,
      <<"promote_semantics", prom = {m \in PL : ~cap(m) /\ IsPromoMove(m)}>>,
      <<"null_not_semilegal", e.null_semilegal = FALSE>>,
      <<"legal_within_pseudolegal",
          Legal(pos) \subseteq PL /\ \A m \in PL \ Legal(pos) : ~LeavesKingSafe(pos, m)>>}

C07Checks(e) ==
  LET pos == PosOfJson(e.pos) IN
  IF Has(e, "panic") THEN {<<"panic", FALSE>>} ELSE
     {<<"has_legal", e.has_legal = HasLegal(pos) /\ e.has_legal_fn = HasLegal(pos)>>,
      <<"outcome", e.outcome \in OutcomeAllowed(pos, 1)>>,
      <<"draw_simple", e.draw_simple \in DrawSimpleAllowed(pos)>>,
      <<"is_check", e.is_check = InCheck(pos)>>}

C16Checks(e) ==
  LET pos == PosOfJson(e.pos)  c == pos.cells IN
  IF Has(e, "panic") THEN {<<"panic", FALSE>>} ELSE
     {<<"attacked", \A k \in {0, 1} :
                       SeqToSet(e.attacked[k + 1]) = {q \in Sq : IsAttacked(c, q, k)}>>,
      <<"attackers", \A k \in {0, 1} : \A q \in Sq :
                       SeqToSet(e.attackers[k + 1][q + 1]) = Attackers(c, q, k)>>,
      <<"is_check", e.is_check = InCheck(pos)>>,
      <<"checkers", SeqToSet(e.checkers) = Checkers(pos)>>,
      <<"king_pos", e.king_pos[1] = KingSq(c, 0) /\ e.king_pos[2] = KingSq(c, 1)>>,
      <<"opp_king_attacked",
          e.opp_king_attacked = IsAttacked(c, KingSq(c, Other(pos.side)), pos.side)>>}

QChecks(e) ==
  CASE Prop = "C01" -> C01Checks(e)
    [] Prop = "C03" -> C03Checks(e)
    [] Prop = "C06" -> C06Checks(e)
    [] Prop = "C07" -> C07Checks(e)
    [] Prop = "C16" -> C16Checks(e)

(***************************************************************************)
(* Stand-alone Board sessions: reset / make / unmake (C04, C05).           *)
(***************************************************************************)
\* the logged derived state agrees with a model board (all 16 occupancy sets)
SetsMatch(der, bd) ==
  /\ SeqToSet(der.white) = bd.white /\ SeqToSet(der.black) = bd.black /\ SeqToSet(der.all) = bd.all
  /\ \A c \in 0..12 : SeqToSet(der.pieces[c + 1]) = bd.pieces[c]
  /\ NoDup(der.white) /\ NoDup(der.black) /\ NoDup(der.all)

\* C05 on one logged state: stored hash = from-scratch hash, sets = sets rebuilt from the squares BY THE SPEC,
\* and the session history maps each position key to one hash whatever the path and the counters
StateChecksC05(e) ==
  LET pos == PosOfJson(e.pos)  k == Key(pos) IN
  {<<"hash_eq_scratch", e.der.hash = e.der.scratch>>,
   <<"sets_eq_scratch", SetsMatch(e.der, Scratch(pos))>>,
   <<"same_key_same_hash", k \in DOMAIN seen => seen[k] = e.der.hash>>,
   <<"hash_injective_in_session", \A k2 \in DOMAIN seen : (seen[k2] = e.der.hash) => k2 = k>>}

SessionChecks(e) ==
  LET pos == PosOfJson(e.pos) IN
  CASE e.ev = "reset" ->
         (IF Prop = "C05" THEN StateChecksC05(e) ELSE {})
         \cup {<<"input_valid", IsValid(pos)>>}
    [] e.ev = "make" ->
         LET m == MoveOfJson(e.m)  mk == DoMake(live, m) IN
         {<<"make_precondition", m = <<0, 0, 0, 0>> \/ m \in PseudoLegal(live.r)>>,
          <<"pos_eq_model", pos = mk.board.r>>,
          <<"sets_eq_model", SetsMatch(e.der, mk.board)>>,
          <<"exposed_flag", e.exposed = IsAttacked(pos.cells, KingSq(pos.cells, Other(pos.side)), pos.side)>>}
         \cup (IF Prop = "C05" THEN StateChecksC05(e) ELSE {})
    [] e.ev = "unmake" ->
         LET t == stk[Len(stk)]  um == DoUnmake(live, t.m, t.u) IN
         {<<"unmake_move_matches", MoveOfJson(e.m) = t.m>>,
          <<"pos_eq_model", pos = um.r>>,
          <<"sets_eq_model", SetsMatch(e.der, um)>>,
          <<"model_restored", um = t.before>>}
         \cup (IF Prop = "C04"
               THEN {<<"restores_position", e.pos = t.obs.pos>>,
                     <<"restores_hash", e.der.hash = t.obs.der.hash>>,
                     <<"restores_occupancy_sets", SetsMatch(e.der, Scratch(PosOfJson(t.obs.pos)))
                                                  /\ SetsMatch(t.obs.der, Scratch(PosOfJson(t.obs.pos)))>>}
               ELSE {})
         \cup (IF Prop = "C05" THEN StateChecksC05(e) ELSE {})

FeatureDiff(p, q) ==
    Cardinality({s \in Sq : p.cells[s] # q.cells[s]})
  + (IF p.side # q.side THEN 1 ELSE 0)
  + Cardinality({i \in 0..3 : ((p.castling \div Pow2(i)) % 2) # ((q.castling \div Pow2(i)) % 2)})
  + (IF p.ep # q.ep THEN 1 ELSE 0)

HashPairChecks(e) ==
  LET p == PosOfJson(e.a.pos)  q == PosOfJson(e.b.pos)  n == FeatureDiff(p, q)
      bothStored == e.a.stored # "" /\ e.b.stored # "" IN
  {<<"same_key_same_hash", n = 0 => (e.a.scratch = e.b.scratch /\ (bothStored => e.a.stored = e.b.stored))>>,
   <<"one_feature_different_hash", n = 1 => (e.a.scratch # e.b.scratch /\ (bothStored => e.a.stored # e.b.stored))>>,
   <<"pair_is_relevant", n \in {0, 1}>>,
   <<"stored_eq_scratch", (e.a.stored # "" => e.a.stored = e.a.scratch) /\ (e.b.stored # "" => e.b.stored = e.b.scratch)>>}

IsSessionEvent(e) == e.ev \in {"reset", "make", "unmake"}

EventChecks(e) ==
  CASE e.ev = "q" -> QChecks(e)
    [] IsSessionEvent(e) -> SessionChecks(e)
    [] e.ev = "hashpair" -> HashPairChecks(e)
    [] OTHER -> {<<"unknown_event", FALSE>>}

Init == l = 1 /\ live = <<>> /\ stk = <<>> /\ obs = <<>> /\ seen = <<>> /\ dead = FALSE

Report(failed) ==
  IF failed = {} THEN TRUE
  ELSE PrintT("NONCONF " \o ToString(l) \o " " \o ToString(failed))  \* one atomic string: never line-wrapped

\* a pure event: no model state changes
StepPure(e) ==
  /\ Report(FailedOf(EventChecks(e)))
  /\ UNCHANGED <<live, stk, obs, seen, dead>>

StepSession(e) ==
  LET pos == PosOfJson(e.pos)
      ob == [pos |-> e.pos, der |-> e.der]
      addSeen == IF Key(pos) \in DOMAIN seen THEN seen ELSE seen @@ (Key(pos) :> e.der.hash)
  IN
  IF e.ev = "reset" THEN
       /\ Report(FailedOf(SessionChecks(e)))
       /\ live' = Scratch(pos) /\ stk' = <<>> /\ obs' = ob
       /\ seen' = (Key(pos) :> e.der.hash) /\ dead' = FALSE
  ELSE IF dead \/ (e.ev = "unmake" /\ stk = <<>>) THEN
       \* diverged earlier in this session (already reported): skip until the next reset
       /\ UNCHANGED <<live, stk, obs, seen, dead>>
  ELSE LET failed == FailedOf(SessionChecks(e)) IN
       /\ Report(failed)
       /\ dead' = ("pos_eq_model" \in failed \/ "unmake_move_matches" \in failed)
       /\ obs' = ob
       /\ seen' = addSeen
       /\ IF e.ev = "make"
          THEN LET m == MoveOfJson(e.m)  mk == DoMake(live, m) IN
               /\ live' = mk.board
               /\ stk' = Append(stk, [m |-> m, u |-> mk.undo, before |-> live, obs |-> obs])
          ELSE LET t == stk[Len(stk)] IN
               /\ live' = DoUnmake(live, t.m, t.u)
               /\ stk' = SubSeq(stk, 1, Len(stk) - 1)

Next ==
  /\ l <= Len(Recs)
  /\ l' = l + 1
  /\ LET e == Recs[l] IN
       IF IsSessionEvent(e) THEN StepSession(e) ELSE StepPure(e)

vars == <<l, live, stk, obs, seen, dead>>
Spec == Init /\ [][Next]_vars

Accepted ==
  LET d == TLCGet("stats").diameter IN
  IF d = Len(Recs) + 1 THEN PrintT("TRACE-ACCEPTED " \o ToString(Len(Recs)))
  ELSE PrintT("TRACE-REJECTED consumed " \o ToString(d - 1) \o " of " \o ToString(Len(Recs))) /\ FALSE
=============================================================================
