------------------------------- MODULE Trace -------------------------------
(***************************************************************************)
(* Trace validation: one recorded event of the real library per step.      *)
(*   TRACE = path of an ndjson file, PROP = property id whose conjuncts    *)
(*   are checked (so that a violation is attributed to the property whose  *)
(*   statement it contradicts).                                            *)
(* Every event is fully logged, so the search is linear.  A non-conforming *)
(* event does not stop the trace: it is reported with                      *)
(*     <<"NONCONF", line, {failed conjunct names}>>                        *)
(* and validation continues, so one bad line does not hide the rest.       *)
(* Acceptance: POSTCONDITION Accepted (all lines consumed).                *)
(***************************************************************************)
EXTENDS Chain, Json, IOUtils

Recs == ndJsonDeserialize(IOEnv.TRACE)
Prop == IOEnv.PROP

VARIABLES l,        \* index of the next line to consume
          live,     \* model board (BoardImpl) of the stand-alone Board session, or <<>>
          stk,      \* its undo stack: <<[m, u, before (model board), obs (logged state before the make)]>>
          obs,      \* the last logged state [pos, der] of the session
          seen,     \* history variable of the session: Key(position) -> logged hash
          dead,     \* TRUE after the session diverged from the model (skipped until the next reset)
          ch,       \* abstract move chain (Chain.tla) of the chain session, or <<>>
          pobs      \* the previous logged observation of the chain

\* JSON conversions (JSON arrays are 1-based sequences)
PosOfJson(j) == [cells |-> [s \in Sq |-> j.cells[s + 1]], side |-> j.side,
                 castling |-> j.castling, ep |-> j.ep, hm |-> j.hm, fm |-> j.fm]
MoveOfJson(a) == <<a[1], a[2], a[3], a[4]>>
SeqToSet(q) == {q[i] : i \in 1..Len(q)}
MovesOfJson(q) == {MoveOfJson(q[i]) : i \in 1..Len(q)}
NoDup(q) == Cardinality(SeqToSet(q)) = Len(q)

Has(e, f) == f \in DOMAIN e
FailedOf(checks) == {c[1] : c \in {c \in checks : ~c[2]}}
SetOfMoves(q) == MovesOfJson(q)

(***************************************************************************)
(* Pure position queries ("q" events).                                     *)
(***************************************************************************)
C01Checks(e) ==
  LET pos == PosOfJson(e.pos)
      L == Legal(pos)
      cap(m) == IsCaptureMove(pos, m)
  IN IF Has(e, "panic") THEN {<<"panic", FALSE>>} ELSE
     {<<"input_valid", IsValid(pos)>>,
      <<"legal_all", SetOfMoves(e.legal_all) = L /\ NoDup(e.legal_all)>>,
      <<"legal_capture", SetOfMoves(e.legal_capture) = {m \in L : cap(m)} /\ NoDup(e.legal_capture)>>,
      <<"legal_simple", SetOfMoves(e.legal_simple) = {m \in L : ~cap(m)} /\ NoDup(e.legal_simple)>>,
      <<"legal_simple_no_promote",
          SetOfMoves(e.legal_simple_no_promote) = {m \in L : ~cap(m) /\ ~IsPromoMove(m)}
          /\ NoDup(e.legal_simple_no_promote)>>,
      <<"legal_simple_promote",
          SetOfMoves(e.legal_simple_promote) = {m \in L : ~cap(m) /\ IsPromoMove(m)}
          /\ NoDup(e.legal_simple_promote)>>,
      <<"validate_ok", SetOfMoves(e.validate_ok) = L>>,
      <<"trymake_ok", SetOfMoves(e.trymake_ok) = L>>,
      <<"legal_unchecked_ok", SetOfMoves(e.legal_unchecked_ok) = L>>,
      <<"make_ok", SetOfMoves(e.make_ok) = L>>}

C03Checks(e) ==
  LET pos == PosOfJson(e.pos)
      L == Legal(pos)
      okOne(s) == LET m == MoveOfJson(s.m) IN
                  m \in L => (s.res = "ok" /\ PosOfJson(s.pos) = ApplyMove(pos, m)
                               \* the other appliers (Unchecked, TryUnchecked, make_raw) produce the same board
                               /\ (("same_by_other_appliers" \in DOMAIN s) => s.same_by_other_appliers))
  IN IF Has(e, "panic") THEN {<<"panic", FALSE>>} ELSE
     {<<"succ", \A i \in 1..Len(e.succ) : okOne(e.succ[i])>>,
      <<"succ_covers_legal", L \subseteq {MoveOfJson(e.succ[i].m) : i \in 1..Len(e.succ)}>>}

C06Checks(e) ==
  LET pos == PosOfJson(e.pos)
      PL == PseudoLegal(pos)
      all == SetOfMoves(e.semi_all)
      capt == SetOfMoves(e.semi_capture)
      simp == SetOfMoves(e.semi_simple)
      nopr == SetOfMoves(e.semi_simple_no_promote)
      prom == SetOfMoves(e.semi_simple_promote)
      cap(m) == IsCaptureMove(pos, m)
  IN IF Has(e, "panic") THEN {<<"panic", FALSE>>} ELSE
     {<<"semi_all", all = PL /\ NoDup(e.semi_all)>>,
      <<"semi_validate_ok", SetOfMoves(e.semi_validate_ok) = PL>>,
      <<"well_formed_and_src_cell", \A m \in all : WellFormed(m) /\ m[2] = pos.cells[m[3]]>>,
      <<"all_is_capture_plus_simple",
          capt \cap simp = {} /\ capt \cup simp = all
          /\ NoDup(e.semi_capture) /\ NoDup(e.semi_simple)>>,
      <<"simple_is_promote_plus_nopromote",
          prom \cap nopr = {} /\ prom \cup nopr = simp
          /\ NoDup(e.semi_simple_promote) /\ NoDup(e.semi_simple_no_promote)>>,
      <<"capture_semantics", capt = {m \in PL : cap(m)}>>,
      <<"promote_semantics", prom = {m \in PL : ~cap(m) /\ IsPromoMove(m)}>>,
      <<"null_not_semilegal", e.null_semilegal = FALSE>>,
      <<"legal_within_pseudolegal",
          Legal(pos) \subseteq PL /\ \A m \in PL \ Legal(pos) : ~LeavesKingSafe(pos, m)>>}

C07Checks(e) ==
  LET pos == PosOfJson(e.pos) IN
  IF Has(e, "panic") THEN {<<"panic", FALSE>>} ELSE
     {<<"has_legal", e.has_legal = HasLegal(pos) /\ e.has_legal_fn = HasLegal(pos)>>,
      <<"outcome", e.outcome \in OutcomeAllowed(pos, 1)>>,
      <<"draw_simple", e.draw_simple \in DrawSimpleAllowed(pos)>>,
      <<"is_check", e.is_check = InCheck(pos)>>}

C16Checks(e) ==
  LET pos == PosOfJson(e.pos)  c == pos.cells IN
  IF Has(e, "panic") THEN {<<"panic", FALSE>>} ELSE
     {<<"attacked", \A k \in {0, 1} :
                       SeqToSet(e.attacked[k + 1]) = {q \in Sq : IsAttacked(c, q, k)}>>,
      <<"attackers", \A k \in {0, 1} : \A q \in Sq :
                       SeqToSet(e.attackers[k + 1][q + 1]) = Attackers(c, q, k)>>,
      <<"is_check", e.is_check = InCheck(pos)>>,
      <<"checkers", SeqToSet(e.checkers) = Checkers(pos)>>,
      <<"king_pos", e.king_pos[1] = KingSq(c, 0) /\ e.king_pos[2] = KingSq(c, 1)>>,
      <<"opp_king_attacked",
          e.opp_king_attacked = IsAttacked(c, KingSq(c, Other(pos.side)), pos.side)>>}

QChecks(e) ==
  CASE Prop = "C01" -> C01Checks(e)
    [] Prop = "C03" -> C03Checks(e)
    [] Prop = "C06" -> C06Checks(e)
    [] Prop = "C07" -> C07Checks(e)
    [] Prop = "C16" -> C16Checks(e)

(***************************************************************************)
(* Stand-alone Board sessions: reset / make / unmake (C04, C05).           *)
(***************************************************************************)
\* the logged derived state agrees with a model board (all 16 occupancy sets)
SetsMatch(der, bd) ==
  /\ SeqToSet(der.white) = bd.white /\ SeqToSet(der.black) = bd.black /\ SeqToSet(der.all) = bd.all
  /\ \A c \in 0..12 : SeqToSet(der.pieces[c + 1]) = bd.pieces[c]
  /\ NoDup(der.white) /\ NoDup(der.black) /\ NoDup(der.all)

\* C05 on one logged state: stored hash = from-scratch hash, sets = sets rebuilt from the squares BY THE SPEC,
\* and the session history maps each position key to one hash whatever the path and the counters
StateChecksC05(e) ==
  LET pos == PosOfJson(e.pos)  k == Key(pos) IN
  {<<"hash_eq_scratch", e.der.hash = e.der.scratch>>,
   <<"sets_eq_scratch", SetsMatch(e.der, Scratch(pos))>>,
   <<"same_key_same_hash", k \in DOMAIN seen => seen[k] = e.der.hash>>,
   <<"hash_injective_in_session", \A k2 \in DOMAIN seen : (seen[k2] = e.der.hash) => k2 = k>>}

SessionChecks(e) ==
  LET pos == PosOfJson(e.pos) IN
  CASE e.ev = "reset" ->
         (IF Prop = "C05" THEN StateChecksC05(e) ELSE {})
         \cup {<<"input_valid", IsValid(pos)>>}
    [] e.ev = "make" ->
         LET m == MoveOfJson(e.m)  mk == DoMake(live, m) IN
         {<<"make_precondition", m = <<0, 0, 0, 0>> \/ m \in PseudoLegal(live.r)>>,
          \* what a null move does to the halfmove clock is the code's own business (no listed property says):
          \* the model follows the observed clock there and only notes a difference from the transcription
          <<"pos_eq_model", IF m = <<0, 0, 0, 0>> THEN [pos EXCEPT !.hm = 0] = [mk.board.r EXCEPT !.hm = 0] ELSE pos = mk.board.r>>,
          <<"x_null_move_clock_as_transcribed", pos.hm = mk.board.r.hm>>,
          <<"sets_eq_model", SetsMatch(e.der, mk.board)>>,
          <<"exposed_flag", e.exposed = IsAttacked(pos.cells, KingSq(pos.cells, Other(pos.side)), pos.side)>>}
         \cup (IF Prop = "C05" THEN StateChecksC05(e) ELSE {})
    [] e.ev = "unmake" ->
         LET t == stk[Len(stk)]  um == DoUnmake(live, t.m, t.u) IN
         {<<"unmake_move_matches", MoveOfJson(e.m) = t.m>>,
          <<"pos_eq_model", pos = um.r>>,
          <<"sets_eq_model", SetsMatch(e.der, um)>>,
          <<"model_restored", um = t.before>>}
         \cup (IF Prop = "C04"
               THEN {<<"restores_position", e.pos = t.obs.pos>>,
                     <<"restores_hash", e.der.hash = t.obs.der.hash>>,
                     <<"restores_occupancy_sets", SetsMatch(e.der, Scratch(PosOfJson(t.obs.pos)))
                                                  /\ SetsMatch(t.obs.der, Scratch(PosOfJson(t.obs.pos)))>>}
               ELSE {})
         \cup (IF Prop = "C05" THEN StateChecksC05(e) ELSE {})

FeatureDiff(p, q) ==
    Cardinality({s \in Sq : p.cells[s] # q.cells[s]})
  + (IF p.side # q.side THEN 1 ELSE 0)
  + Cardinality({i \in 0..3 : ((p.castling \div Pow2(i)) % 2) # ((q.castling \div Pow2(i)) % 2)})
  + (IF p.ep # q.ep THEN 1 ELSE 0)

HashPairChecks(e) ==
  LET p == PosOfJson(e.a.pos)  q == PosOfJson(e.b.pos)  n == FeatureDiff(p, q)
      bothStored == e.a.stored # "" /\ e.b.stored # "" IN
  {<<"same_key_same_hash", n = 0 => (e.a.scratch = e.b.scratch /\ (bothStored => e.a.stored = e.b.stored))>>,
   <<"one_feature_different_hash", n = 1 => (e.a.scratch # e.b.scratch /\ (bothStored => e.a.stored # e.b.stored))>>,
   <<"pair_is_relevant", n \in {0, 1}>>,
   <<"stored_eq_scratch", (e.a.stored # "" => e.a.stored = e.a.scratch) /\ (e.b.stored # "" => e.b.stored = e.b.scratch)>>}

IsSessionEvent(e) == e.ev \in {"reset", "make", "unmake"}

(***************************************************************************)
(* Move-chain sessions (C02, C13, C14, C17; C05 on every observed board).  *)
(***************************************************************************)
IsChainEvent(e) == e.ev \in {"c_new", "c_push", "c_pushlist", "c_pop", "c_set_outcome", "c_clear_outcome", "c_reset_outcome",
                              "c_calc", "c_set_auto", "c_walk", "c_text", "c_eq"}
MoveSeqOfJson(q) == [i \in 1..Len(q) |-> MoveOfJson(q[i])]
OutcomeOfJson(o) == o       \* JSON arrays are tuples already: <<"none">>, <<"win", 0, "checkmate">>, <<"draw", r>>

\* what a move-like value denotes among the legal moves of `pos`; "unknown" for kinds the spec
\* cannot decode yet (then only soundness is required: an accepted move must be legal)
\* (text outside the UCI syntax is only required to be handled soundly: no listed property says whether a lenient
\* reader may accept it - C10 speaks about syntactically valid strings)
LikeKnown(like) == like.t = "move" \/ (like.t \in {"uci", "ucimove"} /\ UciParse(like.text).ok)
IsTryLike(like) == like.t = "try"
IsSanLike(like) == like.t \in {"san", "sanmove"}
\* (TryUnchecked: a legal move, or the null move when the mover is not in check - its documented contract)
Denotes(LS, like) ==
  CASE like.t = "move" -> {MoveOfJson(like.m)} \cap LS
    [] like.t \in {"uci", "ucimove"} -> UciDenotes(LS, like.text)
    [] OTHER -> {}
\* SAN text pushed onto a chain: sound (an accepted move is the unique legal move agreeing with what the
\* text says) and complete on standard texts (the SAN of a legal move is accepted as that move)
SanLikeOK(pos, LS, like, res, m) ==
  LET d == SanDescribe(like.text)  RS == SanResolveIn(LS, d)  ex == SanExactIn(pos, LS, like.text) IN
  /\ res = "ok" => (m \in LS /\ (d.form # "none" => (m \in RS /\ Cardinality(RS) = 1)))
  /\ ex # {} => (res = "ok" /\ m \in ex)

\* push as the abstract chain does it - except that the halfmove clock after a NULL move is taken from the
\* observation (the code's null move has a clock rule of its own that no listed property constrains)
ChPushObs(c, m, o) ==
  IF m = NullMove
  THEN [c EXCEPT !.moves = Append(@, m), !.hist = Append(@, [ApplyMove(Cur(c), m) EXCEPT !.hm = o.last.pos.hm])]
  ELSE ChPush(c, m)

\* text comparisons that tolerate a different use of blanks (no listed property pins the spacing of the move lists)
IsBlankCh(c) == c \in {32, 9, 10, 12, 13}      \* ASCII whitespace (split_ascii_whitespace)
NoBlanks(t) == SelectSeq(t, LAMBDA c : ~IsBlankCh(c))
RECURSIVE TokensFrom(_, _, _)
TokensFrom(t, i, cur) ==
  IF i > Len(t) THEN (IF cur = <<>> THEN <<>> ELSE <<cur>>)
  ELSE IF IsBlankCh(t[i]) THEN (IF cur = <<>> THEN <<>> ELSE <<cur>>) \o TokensFrom(t, i + 1, <<>>)
  ELSE TokensFrom(t, i + 1, Append(cur, t[i]))
Tokens(t) == TokensFrom(t, 1, <<>>)

\* the chain after push_uci_list has gone through the tokens from the i-th on
RECURSIVE ListPushed(_, _, _)
ListPushed(c, toks, i) ==
  IF i > Len(toks) THEN c
  ELSE LET d == UciDenotes(Legal(Cur(c)), toks[i]) IN
       IF Cardinality(d) = 1 THEN ListPushed(ChPush(c, CHOOSE m \in d : TRUE), toks, i + 1) ELSE c

\* the logged observation agrees with the abstract chain
ObsChecks(c, o) ==
  {<<"obs_len", o.len = ChLen(c) /\ o.empty = (ChLen(c) = 0)>>,
   <<"obs_moves", MoveSeqOfJson(o.moves) = c.moves /\ MoveSeqOfJson(o.moves_by_get) = c.moves>>,
   <<"obs_position_is_replay", PosOfJson(o.last.pos) = Cur(c)>>,
   <<"obs_start", PosOfJson(o.start) = c.start>>,
   <<"obs_outcome", o.outcome = c.outcome /\ o.finished = (c.outcome # NoOutcome)>>}
  \cup (IF Prop = "C02"
        THEN {<<"position_valid", IsValid(PosOfJson(o.last.pos))>>,
              <<"revalidation_identical", o.revalid>>,
              <<"mover_not_in_check", ~o.mover_in_check>>}
        ELSE {})
  \* (C05 inside chains; also evaluated under the chain properties themselves: a chain whose live board carries
  \*  a wrong hash or occupancy set is not a faithful record - its later answers are computed from them)
  \cup {<<"hash_eq_scratch", o.last.der.hash = o.last.der.scratch>>,
        <<"sets_eq_scratch", SetsMatch(o.last.der, Scratch(PosOfJson(o.last.pos)))>>}

\* the walker steps of one c_walk event, simulated on the abstract walker
RECURSIVE WalkChecks(_, _, _, _)
WalkChecks(c, steps, k, i) ==
  IF k > Len(steps) THEN {}
  ELSE LET st == steps[k]
           r == CASE st.op = "next" -> WNext(c, i)
                  [] st.op = "prev" -> WPrev(c, i)
                  [] st.op = "start" -> [some |-> FALSE, i |-> 0]
                  [] OTHER -> [some |-> FALSE, i |-> ChLen(c)]
           ok == /\ st.some = r.some
                 /\ st.wpos = r.i /\ st.wlen = ChLen(c)
                 /\ r.some => /\ PosOfJson(st.state.pos) = r.pos
                              /\ MoveOfJson(st.m) = r.m
                              /\ st.state.der.hash = st.state.der.scratch
                              /\ SetsMatch(st.state.der, Scratch(r.pos))
       IN {<<"walk_step_" \o ToString(k) \o "_" \o st.op, ok>>} \cup WalkChecks(c, steps, k + 1, r.i)

StyledExpected(c, v) ==
  StyledText(c, v.nums, IF v.nums = "custom" THEN v.custom ELSE 0, v.status,
             LAMBDA i : CASE v.style = "uci" -> UciOf(c.moves[i])
                          [] v.style = "san" -> SanOf(c.hist[i], c.moves[i])
                          [] OTHER -> SanUtf8Of(c.hist[i], c.moves[i]))
\* moves in the requested notation, in game order, numbers, status token: compared blank-insensitively; the exact
\* spacing is a note
StyledChecks(c, variants) ==
  {<<"styled_" \o v.nums \o "_" \o v.style \o (IF v.status THEN "_status" ELSE ""),
     ~("panic" \in DOMAIN v) /\ NoBlanks(v.text) = NoBlanks(StyledExpected(c, v))>> :
     v \in {variants[i] : i \in 1..Len(variants)}}
  \cup {<<"x_styled_text_spacing", \A i \in 1..Len(variants) :
            ("panic" \in DOMAIN variants[i]) \/ variants[i].text = StyledExpected(c, variants[i])>>}

\* engine S2I: the behaviour came from the model; the harness compared the abstract state the model expects
S2IChecks(e) == IF "s2i_match" \in DOMAIN e THEN {<<"model_behaviour_reproduced_by_code", e.s2i_match>>} ELSE {}

ChainChecks(e) ==
  S2IChecks(e) \cup
  IF e.ev = "c_new" THEN
       \* (the start may be handed over un-normalised: the chain starts from what validation makes of it)
       {<<"input_valid", Conditions(PosOfJson(e.pos)) = {}>>} \cup ObsChecks(NewChain(Normalise(PosOfJson(e.pos))), e.obs)
  ELSE
  LET cur == Cur(ch) IN
  CASE e.ev = "c_push" ->
         LET LS == Legal(cur)
             d == Denotes(LS, e.like)
             known == LikeKnown(e.like)
             m == IF e.res = "ok" THEN MoveOfJson(e.m) ELSE NullMove
             tryOK == IsTryLike(e.like) /\ m = MoveOfJson(e.like.m) /\ (m \in LS \/ (m = NullMove /\ ~InCheck(cur)))
         IN {<<"no_panic", e.res # "panic">>,
             <<"push_precondition", ch.outcome = NoOutcome>>,
             <<"accepted_iff_legal", known => ((e.res = "ok") <=> (Cardinality(d) = 1))>>,
             <<"accepted_move_is_the_denoted_legal_move",
                 e.res = "ok" => (IF IsTryLike(e.like) THEN tryOK ELSE (m \in LS /\ (known => m \in d)))>>,
             <<"try_unchecked_within_contract_is_accepted", IsTryLike(e.like) => e.res = "ok">>,
             <<"san_text_sound_and_complete", IsSanLike(e.like) => SanLikeOK(cur, LS, e.like, e.res, m)>>,
             <<"refused_push_changes_nothing", e.res # "ok" => e.obs = pobs>>,
             <<"x_text_outside_the_uci_syntax_is_refused",
                 (e.like.t \in {"uci", "ucimove"} /\ ~UciParse(e.like.text).ok) => e.res # "ok">>}
            \cup (IF e.res = "ok" /\ (m \in LS \/ tryOK)
                  THEN ObsChecks(ChPushObs(ch, m, e.obs), e.obs)
                       \cup {<<"x_null_move_clock_as_transcribed", Cur(ChPush(ch, m)).hm = e.obs.last.pos.hm>>}
                  ELSE {})
    [] e.ev = "c_pushlist" ->
         \* push_uci_list: the tokens are pushed one by one; the first one that does not denote a legal move stops
         \* the call with an error and the moves before it STAY pushed
         LET after == ListPushed(ch, Tokens(e.text), 1) IN
         {<<"no_panic", e.res # "panic">>,
          <<"push_precondition", ch.outcome = NoOutcome>>,
          <<"list_accepted_iff_every_token_is_legal", (e.res = "ok") <=> (ChLen(after) = ChLen(ch) + Len(Tokens(e.text)))>>,
          <<"x_error_position_is_the_failing_token", e.res = "err" => e.errpos = ChLen(after) - ChLen(ch)>>}
         \cup ObsChecks(after, e.obs)
    [] e.ev = "c_pop" ->
         {<<"pop_result", IF ChLen(ch) = 0 THEN e.res = "none"
                          ELSE e.res = "some" /\ MoveOfJson(e.m) = ch.moves[ChLen(ch)]>>}
         \cup ObsChecks(ChPop(ch), e.obs)
    [] e.ev = "c_set_outcome" -> ObsChecks([ch EXCEPT !.outcome = e.o], e.obs)
    [] e.ev = "c_clear_outcome" -> ObsChecks([ch EXCEPT !.outcome = NoOutcome], e.obs)
    [] e.ev = "c_reset_outcome" -> ObsChecks([ch EXCEPT !.outcome = e.o], e.obs)
    [] e.ev = "c_calc" ->
         {<<"calc_outcome_allowed", e.res \in ChOutcomeAllowed(ch)>>,
          <<"repeat_count", \A i \in 1..Len(e.rep) : e.rep[i] = RepCount(ch)>>,
          <<"board_outcome_allowed", e.board_outcome \in OutcomeAllowed(cur, 1)>>,
          <<"calc_changes_nothing", e.obs = pobs>>}
    [] e.ev = "c_set_auto" ->
         {<<"auto_outcome", e.res \in AutoAllowed(ch, e.filter)>>,
          <<"repeat_count", \A i \in 1..Len(e.rep) : e.rep[i] = RepCount(ch)>>}
         \cup ObsChecks([ch EXCEPT !.outcome = e.res], e.obs)
    [] e.ev = "c_walk" ->
         WalkChecks(ch, e.results, 1, 0)
         \cup {<<"walk_leaves_chain_untouched", e.chain_untouched /\ e.obs = pobs>>}
    [] e.ev = "c_text" ->
         {<<"uci_list_text", Tokens(e.uci) = [i \in 1..ChLen(ch) |-> UciOf(ch.moves[i])]>>,
          <<"x_uci_list_text_single_blanks", e.uci = UciListText(ch)>>,
          \* (a chain holding a null move prints it as 0000, which is deliberately not playable back)
          <<"uci_list_rebuilds_equal_chain",
              (\E i \in 1..ChLen(ch) : ch.moves[i] = NullMove)
              \/ (e.uci_rebuilt.ok /\ e.uci_rebuilt.eq /\ PosOfJson(e.uci_rebuilt.last) = cur
                  /\ MoveSeqOfJson(e.uci_rebuilt.moves) = ch.moves)>>,
          <<"text_changes_nothing", e.obs = pobs>>}
         \cup StyledChecks(ch, e.styled)
    [] e.ev = "c_eq" ->
         {<<"eq_" \o v.kind,
            LET same == /\ PosOfJson(v.start) = ch.start
                        /\ MoveSeqOfJson(v.moves) = ch.moves
                        /\ v.outcome = ch.outcome
            IN v.eq = same /\ v.eq_rev = same>> : v \in {e.variants[i] : i \in 1..Len(e.variants)}}
         \cup {<<"eq_changes_nothing", e.obs = pobs>>}

\* the abstract chain follows the implementation where that is meaningful; otherwise the session is dead
ChainNext(e) ==
  CASE e.ev = "c_new" -> NewChain(Normalise(PosOfJson(e.pos)))
    [] e.ev = "c_push" -> IF e.res = "ok" THEN ChPushObs(ch, MoveOfJson(e.m), e.obs) ELSE ch
    [] e.ev = "c_pushlist" -> ListPushed(ch, Tokens(e.text), 1)
    [] e.ev = "c_pop" -> ChPop(ch)
    [] e.ev \in {"c_set_outcome", "c_reset_outcome"} -> [ch EXCEPT !.outcome = e.o]
    [] e.ev = "c_clear_outcome" -> [ch EXCEPT !.outcome = NoOutcome]
    [] e.ev = "c_set_auto" -> [ch EXCEPT !.outcome = e.res]
    [] OTHER -> ch
ChainDiverged(e, failed) ==
     (e.ev = "c_push" /\ e.res = "ok" /\ MoveOfJson(e.m) \notin Legal(Cur(ch))
        /\ ~(IsTryLike(e.like) /\ MoveOfJson(e.m) = NullMove /\ ~InCheck(Cur(ch))))
  \/ "obs_position_is_replay" \in failed \/ "obs_moves" \in failed \/ "obs_len" \in failed

(***************************************************************************)
(* Text formats: FEN (C08), SAN (C09), UCI (C10), parser totality (C12).   *)
(***************************************************************************)
FenChecks(e) ==
  LET pos == PosOfJson(e.pos)  rd == FenRead(e.text) IN
  {<<"text_is_canonical_fen", e.text = FenWrite(pos)>>,
   <<"independent_reader_same_position", rd.ok /\ rd.pos = pos>>,
   <<"library_reparse_same_position", e.reparsed.ok /\ PosOfJson(e.reparsed.pos) = pos>>,
   <<"raw_reparse_same_position", e.reparsed_raw.ok /\ PosOfJson(e.reparsed_raw.pos) = pos>>,
   <<"input_in_scope", IF e.kind = "board" THEN IsValid(pos)
                       ELSE (pos.ep = -1 \/ RankOf(pos.ep) = EpSrcRank(pos.side))>>,
   \* (beyond the listed property: the pretty-printer of the same board, both styles)
   <<"x_pretty_text", ("pretty_ascii" \in DOMAIN e) =>
                       (e.pretty_ascii = PrettyText(pos, FALSE) /\ e.pretty_utf8 = PrettyText(pos, TRUE))>>}

FenParseChecks(e) ==
  LET rd == FenRead(e.text) IN
  {<<"no_panic", ~("panic" \in DOMAIN e.res)>>,
   <<"parse_format_parse_stable",
       e.res.ok => (e.res.text2 = FenWrite(PosOfJson(e.res.pos)) /\ e.res.pos2.ok /\ e.res.pos2.pos = e.res.pos)>>,
   <<"canonical_text_accepted_as_read", rd.ok => (e.res.ok /\ PosOfJson(e.res.pos) = rd.pos)>>,
   \* (how lenient the reader is on other text, and which error it reports, is transcribed in ImplFenRead and
   \*  compared as a note)
   <<"x_fen_reader_as_transcribed",
       ("panic" \in DOMAIN e.res) \/
       LET im == ImplFenRead(e.text) IN
         im.ok = e.res.ok /\ (im.ok => im.pos = PosOfJson(e.res.pos)) /\ (~im.ok => im.err = e.res.err)>>}

SanChecks(e) ==
  LET pos == PosOfJson(e.pos)
      LS == Legal(pos)
      MV == {e.moves[i] : i \in 1..Len(e.moves)}
      TX == {e.texts[i] : i \in 1..Len(e.texts)}
      stdTexts == {x.san : x \in {x \in MV : x.ok}}
      stdMove(t) == {MoveOfJson(x.m) : x \in {x \in MV : x.ok /\ x.san = t}}
  IN
  {<<"input_valid", IsValid(pos)>>,
   <<"every_legal_move_has_san", {MoveOfJson(x.m) : x \in MV} = LS /\ \A x \in MV : x.ok>>,
   <<"san_is_standard", \A x \in MV : x.ok => x.san = SanOfIn(pos, LS, MoveOfJson(x.m))>>,
   <<"utf8_is_standard", \A x \in MV : x.ok => x.utf8 = SanUtf8OfIn(pos, LS, MoveOfJson(x.m)) /\ x.styled_agree>>,
   <<"distinct_moves_distinct_texts", Cardinality(stdTexts) = Cardinality({x \in MV : x.ok})>>,
   <<"san_round_trip", \A x \in MV : x.ok => (x.back.ok /\ MoveOfJson(x.back.m) = MoveOfJson(x.m))>>,
   <<"illegal_moves_have_no_san", e.illegal_with_san = <<>>>>,
   <<"parse_no_panic", \A x \in TX : ~("panic" \in DOMAIN x.res)>>,
   <<"parse_returns_only_the_legal_move_described",
       \A x \in TX : x.res.ok =>
          LET m == MoveOfJson(x.res.m)  d == SanDescribe(x.text)  RS == SanResolveIn(LS, d) IN
          m \in LS /\ (d.form # "none" => (m \in RS /\ Cardinality(RS) = 1))>>,
   <<"standard_text_accepted", \A x \in TX : x.text \in stdTexts => (x.res.ok /\ MoveOfJson(x.res.m) \in stdMove(x.text))>>}

UciChecks(e) ==
  LET pos == PosOfJson(e.pos)
      PL == PseudoLegal(pos)
      LS == Legal(pos)
      pairs(q) == {<<<<q[i][1][1], q[i][1][2], q[i][1][3]>>, MoveOfJson(q[i][2])>> : i \in 1..Len(q)}
      TS == {e.tostring[i] : i \in 1..Len(e.tostring)}
  IN
  {<<"input_valid", IsValid(pos)>>,
   <<"no_panic", e.panics = <<>>>>,
   <<"semilegal_reader_accepts_exactly_the_pseudo_legal_triples", pairs(e.semi) = {<<Triple(m), m>> : m \in PL}>>,
   <<"legal_reader_accepts_exactly_the_legal_triples", pairs(e.legal) = {<<Triple(m), m>> : m \in LS}>>,
   <<"make_accepts_exactly_the_legal_triples",
       {<<e.make_ok[i][1][1], e.make_ok[i][1][2], e.make_ok[i][1][3]>> : i \in 1..Len(e.make_ok)} = {Triple(m) : m \in LS}
       /\ \A i \in 1..Len(e.make_ok) : e.make_ok[i][2] /\ e.make_ok[i][3]>>,
   <<"basic_reader_yields_well_formed_moves_with_that_triple",
       \A p \in pairs(e.basic) : WellFormed(p[2]) /\ Triple(p[2]) = p[1] /\ p[2][2] = pos.cells[p[2][3]]>>,
   <<"semilegal_subset_of_basic", pairs(e.semi) \subseteq pairs(e.basic)>>,
   <<"null_move_never_accepted",
       e.null.from_uci_is_null /\ ~e.null.semi /\ ~e.null.legal /\ ~e.null.make_str /\ ~e.null.make_parsed
       /\ ~e.null.make_move /\ e.null.null_text = Txt("0000")>>,
   <<"to_string_is_uci_and_reads_back",
       {MoveOfJson(x.m) : x \in TS} = PL
       /\ \A x \in TS : x.text = UciOf(MoveOfJson(x.m)) /\ x.same /\ x.back = x.m>>}

ParseChecks(e) ==
  LET t == e.text IN
  {<<"no_panic", e.res # "panic">>,
   <<"value_formats_back_to_itself", e.res = "ok" => e.rt>>,
   <<"accept_language",
       CASE e.what = "coord" -> ((e.res = "ok") <=> (Len(t) = 2 /\ IsFileCh(t[1]) /\ IsRankCh(t[2])))
                                /\ (e.res = "ok" => e.val = MkSq(FileOfCh(t[1]), RankOfCh(t[2])))
         [] e.what = "color" -> ((e.res = "ok") <=> (t = <<119>> \/ t = <<98>>))
                                /\ (e.res = "ok" => e.val = (IF t = <<119>> THEN 0 ELSE 1))
         [] e.what = "cell" -> ((e.res = "ok") <=> (Len(t) = 1 /\ (t[1] = 46 \/ CellOfCh(t[1]) # -1)))
                               /\ (e.res = "ok" => e.val = (IF t[1] = 46 THEN 0 ELSE CellOfCh(t[1])))
         [] e.what = "rights" -> ((e.res = "ok") <=> (RightsOfText(t) # -1))
                                 /\ (e.res = "ok" => e.val = RightsOfText(t))
         [] e.what = "uci" -> (UciParse(t).ok => e.res = "ok")
         [] e.what = "rawfen" -> (FenRead(t).ok => e.res = "ok")
         [] OTHER -> TRUE>>,
   \* (no listed property says what happens to text outside the UCI syntax, short of "no panic": a note, not a verdict)
   <<"x_text_outside_the_uci_syntax_is_refused",
       e.what \in {"uci", "from_uci"} => (e.res = "ok" => UciParse(t).ok)>>,
   \* (the SAN text syntax as transcribed in Notation!SanDescribe - with "0000" read as the null move: a note)
   <<"x_san_text_syntax_as_transcribed",
       e.what = "san" => ((e.res = "ok") <=> (SanDescribe(t).form # "none" \/ SanStrip(t) = Txt("0000")))>>}

(***************************************************************************)
(* C11 validation, C15 tables, C18 symmetry, C19 capacity, C20 types.      *)
(***************************************************************************)
RawValChecks(e) ==
  LET raw == PosOfJson(e.raw)  S == Conditions(raw)  r == e.res IN
  {<<"no_panic", ~("panic" \in DOMAIN r)>>,
   <<"accepts_exactly_the_valid_boards", r.ok <=> (S = {})>>,
   <<"reported_reason_really_holds", ~r.ok => <<r.err[1], r.err[2]>> \in S>>}
  \cup (IF r.ok /\ S = {}
        THEN LET p == PosOfJson(r.pos) IN
             {<<"result_is_the_normalised_input", p = Normalise(raw)>>,
              <<"only_rights_and_ep_may_change",
                  p.cells = raw.cells /\ p.side = raw.side /\ p.hm = raw.hm /\ p.fm = raw.fm
                  /\ RightsSet(p.castling) \subseteq RightsSet(raw.castling) /\ p.ep \in {raw.ep, -1}>>,
              <<"validating_again_changes_nothing", r.idempotent /\ r.by_ref /\ Conditions(p) = {} /\ Normalise(p) = p>>,
              <<"derived_state_from_scratch", r.der.hash = r.der.scratch /\ SetsMatch(r.der, Scratch(p))>>}
        ELSE {})

MagicChecks(e) ==
  {<<"slider_attack_set_exact",
      \A i \in 1..Len(e.entries) :
         LET occ == SeqToSet(e.entries[i][1]) IN
         SeqToSet(e.entries[i][2]) = (IF e.piece = "rook" THEN RookAttacks(occ, e.sq) ELSE BishopAttacks(occ, e.sq))>>}

LeaperChecks(e) ==
  {<<"king_table", \A s \in Sq : SeqToSet(e.king[s + 1]) = KingSet[s]>>,
   <<"knight_table", \A s \in Sq : SeqToSet(e.knight[s + 1]) = KnightSet[s]>>,
   <<"white_pawn_table", \A s \in Sq : SeqToSet(e.wpawn[s + 1]) = PawnAttackSet(White, s)>>,
   <<"black_pawn_table", \A s \in Sq : SeqToSet(e.bpawn[s + 1]) = PawnAttackSet(Black, s)>>}

BetweenChecks(e) ==
  LET a == e.src IN
  {<<"is_bishop_valid_exact", \A b \in Sq : e.bishop_valid[b + 1] = SameDiag(a, b)>>,
   <<"is_rook_valid_exact", \A b \in Sq : e.rook_valid[b + 1] = SameLine(a, b)>>,
   <<"bishop_strict_exact_on_diagonals", \A b \in Sq : SameDiag(a, b) => SeqToSet(e.bishop_strict[b + 1]) = Between(a, b)>>,
   <<"rook_strict_exact_on_lines", \A b \in Sq : SameLine(a, b) => SeqToSet(e.rook_strict[b + 1]) = Between(a, b)>>,
   <<"bishop_strict_empty_off_diagonals", \A b \in Sq : ~SameDiag(a, b) => e.bishop_strict[b + 1] = <<>>>>,
   <<"rook_strict_empty_off_lines", \A b \in Sq : ~SameLine(a, b) => e.rook_strict[b + 1] = <<>>>>}

SymChecks(e) ==
  LET pos == PosOfJson(e.a.pos)
      mirror == e.kind = "mirror"
      img == IF mirror THEN MirrorPos(pos) ELSE FlopPos(pos)
      mm(m) == IF mirror THEN MirrorMove(m) ELSE FlopMove(m)
  IN {<<"input_in_scope", IsValid(pos) /\ (mirror \/ pos.castling = 0)>>,
      <<"image_is_a_valid_position", ~("rejected" \in DOMAIN e) /\ PosOfJson(e.built) = img /\ IsValid(img)>>}
     \cup (IF "rejected" \in DOMAIN e THEN {} ELSE
           {<<"image_unchanged_by_validation", PosOfJson(e.b.pos) = img>>,
            <<"legal_moves_are_mirror_images", MovesOfJson(e.b.legal) = {mm(m) : m \in MovesOfJson(e.a.legal)}
                                               /\ Len(e.b.legal) = Len(e.a.legal)>>,
            <<"check_is_the_same", e.b.check = e.a.check /\ e.b.has_legal = e.a.has_legal>>,
            \* (the move number is the one field that is not colour-symmetric: it advances after Black's move)
            <<"moves_have_mirror_image_effects",
                {<<mm(MoveOfJson(e.a.succ[i][1])),
                   [(IF mirror THEN MirrorPos(PosOfJson(e.a.succ[i][2])) ELSE FlopPos(PosOfJson(e.a.succ[i][2]))) EXCEPT !.fm = 0]>> :
                     i \in 1..Len(e.a.succ)}
                = {<<MoveOfJson(e.b.succ[i][1]), [PosOfJson(e.b.succ[i][2]) EXCEPT !.fm = 0]>> : i \in 1..Len(e.b.succ)}>>,
            <<"outcome_same_with_winner_swapped",
                e.b.outcome = (IF mirror THEN SwapOutcome(e.a.outcome) ELSE e.a.outcome)>>})

CapChecks(e) ==
  LET pos == PosOfJson(e.pos)  n == Cardinality(PseudoLegal(pos)) IN
  IF "panic" \in DOMAIN e THEN {<<"no_panic_or_overflow", FALSE>>} ELSE
  {<<"input_valid", IsValid(pos)>>,
   <<"semilegal_count", e.semi_len = n /\ e.list_len = n /\ e.parts_len = n>>,
   <<"fits_move_list", n <= 256 /\ e.semi_len <= e.capacity>>,
   <<"x_move_list_capacity_is_256", e.capacity = 256>>,
   <<"legal_count", e.legal_len = Cardinality(Legal(pos))>>}

Iota(n) == [i \in 1..n |-> i - 1]
TIndexChecks(e) ==
  {<<"checked_constructors_reject_exactly_out_of_range",
      e.file = Iota(8) /\ e.rank = Iota(8) /\ e.coord = Iota(64) /\ e.piece = Iota(6) /\ e.cell = Iota(13) /\ e.rights = Iota(16)>>}

TValuesChecks(e) ==
  {<<"files", Len(e.files) = 8 /\ \A i \in 1..8 : LET x == e.files[i] IN
        x.index = i - 1 /\ x.ch = FileCh(i - 1) /\ x.text = <<FileCh(i - 1)>> /\ x.from_index /\ x.from_char>>,
   <<"ranks", Len(e.ranks) = 8 /\ \A i \in 1..8 : LET x == e.ranks[i] IN
        x.index = i - 1 /\ x.ch = RankCh(i - 1) /\ x.text = <<RankCh(i - 1)>> /\ x.from_index /\ x.from_char>>,
   <<"coords", Len(e.coords) = 64 /\ \A i \in 1..64 : LET x == e.coords[i]  s == i - 1 IN
        /\ x.index = s /\ x.file = FileOf(s) /\ x.rank = RankOf(s) /\ x.text = SqText(s)
        /\ x.from_index /\ x.from_parts /\ x.from_str
        /\ x.flipped_rank = MirrorV(s) /\ x.flipped_file = MirrorH(s) /\ x.diag = DiagIx(s) /\ x.antidiag = AntidiagIx(s)>>,
   <<"pieces", Len(e.pieces) = 6 /\ \A i \in 1..6 : e.pieces[i].index = i - 1 /\ e.pieces[i].from_index>>,
   <<"cells", Len(e.cells) = 13 /\ \A i \in 1..13 : LET x == e.cells[i]  c == i - 1 IN
        /\ x.index = c /\ x.color = ColorOf(c) /\ x.piece = (IF c = 0 THEN -1 ELSE PieceOf(c))
        /\ x.ch = CellAsciiCh(c) /\ x.utf8 = CellUtf8Ch(c) /\ x.text = <<CellAsciiCh(c)>>
        /\ x.from_index /\ x.from_char /\ x.from_str /\ x.from_parts /\ x.free = (c = 0) /\ x.occupied = (c # 0)>>,
   <<"colors", Len(e.colors) = 2 /\ \A i \in 1..2 : LET x == e.colors[i]  c == i - 1 IN
        x.index = c /\ x.inv = Other(c) /\ x.ch = ColorCh(c) /\ x.text = <<ColorCh(c)>> /\ x.long = ColorLong(c)
        /\ x.from_char /\ x.from_str>>,
   <<"rights", Len(e.rights) = 16 /\ \A i \in 1..16 : LET x == e.rights[i]  cr == i - 1
                                                         bit(k) == (cr \div Pow2(k)) % 2 = 1 IN
        /\ x.index = cr /\ x.text = RightsText(cr) /\ x.from_str
        /\ \A k \in 0..3 : x.has[k + 1] = bit(k)
                             /\ x.with[k + 1] = (IF bit(k) THEN cr ELSE cr + Pow2(k))
                             /\ x.without[k + 1] = (IF bit(k) THEN cr - Pow2(k) ELSE cr)
        /\ x.has_color[1] = (bit(0) \/ bit(1)) /\ x.has_color[2] = (bit(2) \/ bit(3))>>}

TCharsChecks(e) ==
  {<<"from_char_accepts_exactly_the_documented_characters",
      \A i \in 1..Len(e.rows) : LET r == e.rows[i]  c == r[1] IN
         r[2] = FileOfChar(c) /\ r[3] = RankOfChar(c) /\ r[4] = CellOfChar(c) /\ r[5] = ColorOfChar(c)>>}

TStringsChecks(e) ==
  LET A == SetOfSeq(e.alphabet)
      universe == {<<a>> : a \in A} \cup {<<a, b>> : a \in A, b \in A}
      accepts(t) == CoordOfText(t) # -1 \/ ColorOfText(t) # -1 \/ CellOfText(t) # -1 \/ RightsOfText(t) # -1
      AC == {e.accepted[i] : i \in 1..Len(e.accepted)}
  IN {<<"no_panic", \A x \in AC : ~("panic" \in DOMAIN x)>>,
      <<"accepted_values", \A x \in AC : ("panic" \in DOMAIN x) \/
            (x.coord = CoordOfText(x.text) /\ x.color = ColorOfText(x.text)
             /\ x.cell = CellOfText(x.text) /\ x.rights = RightsOfText(x.text))>>,
      <<"accepts_exactly_the_documented_spellings",
            {x.text : x \in {x \in AC : Len(x.text) \in {1, 2}}} = {t \in universe : accepts(t)}>>}

TConstsChecks(e) ==
  {<<"rank_constants", \A r \in 0..7 : SeqToSet(e.rank[r + 1]) = RankSet(r)>>,
   <<"file_constants", \A f \in 0..7 : SeqToSet(e.file[f + 1]) = FileSet(f)>>,
   <<"diag_constants", Len(e.diag) = 15 /\ \A i \in 0..14 : SeqToSet(e.diag[i + 1]) = DiagSet(i)>>,
   <<"antidiag_constants", Len(e.antidiag) = 15 /\ \A i \in 0..14 : SeqToSet(e.antidiag[i + 1]) = AntidiagSet(i)>>,
   <<"square_colour_constants", SeqToSet(e.light) = LightSet /\ SeqToSet(e.dark) = DarkSet>>,
   <<"per_colour_ranks",
       /\ e.castling_rank = <<HomeRank(0), HomeRank(1)>> /\ e.double_src = <<PawnStartRank(0), PawnStartRank(1)>>
       /\ e.double_dst = <<DoubleDstRank(0), DoubleDstRank(1)>> /\ e.promote_src = <<PromoSrcRank(0), PromoSrcRank(1)>>
       /\ e.promote_dst = <<PromoDstRank(0), PromoDstRank(1)>> /\ e.ep_src = <<EpSrcRank(0), EpSrcRank(1)>>
       /\ e.ep_dst = <<EpDstRank(0), EpDstRank(1)>>>>,
   <<"pawn_deltas", e.fwd = <<-8, 8>> /\ e.left = <<-9, 7>> /\ e.right = <<-7, 9>>>>}

TMoveApiChecks(e) ==
  {<<"x_from_castling", e.castlings = <<CastlingMoveOf(0, SideQ), CastlingMoveOf(0, SideK), CastlingMoveOf(1, SideQ), CastlingMoveOf(1, SideK)>>>>,
   <<"x_kind_promote_and_matches_piece", Len(e.kinds) = 10 /\ \A i \in 1..10 : LET x == e.kinds[i] IN
        x.kind = i - 1 /\ x.promote = KindPromotes(i - 1) /\ \A pc \in 0..5 : x.matches[pc + 1] = KindMatchesPiece(i - 1, pc)>>,
   <<"x_unset_color", \A cr \in 0..15 : \A c \in {0, 1} : e.unset_color[cr + 1][c + 1] = UnsetColor(cr, c)>>,
   <<"x_ep_dest", \A c \in {0, 1} : e.ep_dest[c + 1][1] = -1 /\ \A s \in Sq : e.ep_dest[c + 1][s + 2] = EpDestOf(c, s)>>,
   <<"x_put2_get2", Len(e.put2) = 64 /\ \A i \in 1..64 : LET x == e.put2[i] IN
        x.at = <<MkSq(x.file, x.rank)>> /\ x.get2 = x.cell /\ x.get = x.cell>>,
   <<"x_initial_values", PosOfJson(e.initial) = InitialPos /\ PosOfJson(e.raw_initial) = InitialPos /\ PosOfJson(e.raw_empty) = EmptyPos
        /\ IsValid(InitialPos)>>,
   <<"x_new_initial", PosOfJson(e.new_initial.start) = InitialPos /\ PosOfJson(e.new_initial.last) = InitialPos
        /\ e.new_initial.len = 0 /\ e.new_initial.eq_new /\ e.new_initial.outcome_none>>,
   <<"x_null_move", MoveOfJson(e.null_move) = <<0, 0, 0, 0>> /\ e.null_uci = UciOf(<<0, 0, 0, 0>>) /\ e.kind_null_default = KNull>>}

TGeometryChecks(e) ==
  {<<"shift", LET rg == e.shift_range IN rg >= 8 /\ \A s \in Sq : \A df \in -rg..rg : \A dr \in -rg..rg :
                e.shifts[s + 1][(df + rg) * (2 * rg + 1) + (dr + rg) + 1] = Shift(s, df, dr)>>,
   <<"add", \A s \in Sq : e.adds[s + 1] = SortedSeq({d \in -70..70 : s + d \in 0..63})>>,
   \* huge offsets (|delta| >= 2^32 ... 2^63) always leave the board
   <<"shift_by_huge_offsets_leaves_the_board", e.extreme_on_board = <<>> /\ e.extreme_tried > 0>>}

\* the bitboard iterator against the ascending sequence of its squares (the model of every adaptor)
BBIterChecks(e) ==
  {<<"iterator_protocol",
      \A i \in 1..Len(e.rows) : LET r == e.rows[i]  q == SortedSeq(SeqToSet(r.x))  len == Len(q)  n == r.n
                                     at(k) == IF k >= 1 /\ k <= len THEN q[k] ELSE -1 IN
         /\ r.nth = at(n + 1)
         \* after nth(n): the next element, or nothing at all if nth ran off the end (the iterator is exhausted)
         /\ r.then_next = (IF n + 1 <= len THEN at(n + 2) ELSE -1)
         /\ r.then_count = (IF n + 2 <= len THEN len - (n + 2) ELSE 0)
         /\ r.count = len /\ r.last = at(len) /\ (len = 0 => r.last = -1)
         /\ r.hint_lo <= len /\ (r.hint_hi = -1 \/ r.hint_hi >= len)
         /\ r.skip = SubSeq(q, n + 1, len)
         /\ r.take = SubSeq(q, 1, IF n < len THEN n ELSE len)
         /\ r.step_by = [k \in 1..((len + n) \div (n + 1)) |-> q[(k - 1) * (n + 1) + 1]]
         /\ r.min = at(1) /\ r.max = (IF len = 0 THEN -1 ELSE q[len])>>}

\* a move list printed in UCI notation (position-independent): tokens joined by single spaces
UciListChecks(e) ==
  LET ms == [i \in 1..Len(e.moves) |-> MoveOfJson(e.moves[i])] IN
  {<<"no_panic", ~("panic" \in DOMAIN e)>>,
   <<"uci_list_text", ("panic" \in DOMAIN e) \/ Tokens(e.text) = [i \in 1..Len(ms) |-> UciOf(ms[i])]>>,
   <<"x_uci_list_text_single_blanks", ("panic" \in DOMAIN e) \/ e.text = JoinWith([i \in 1..Len(ms) |-> UciOf(ms[i])], <<32>>, 1)>>,
   <<"uci_list_rebuilds_equal_chain", ("panic" \in DOMAIN e) \/ e.rebuilt_eq>>}

TOutcomesChecks(e) ==
  LET RS == {e.rows[i] : i \in 1..Len(e.rows)} IN
  {<<"all_outcomes_covered", {x.o : x \in RS} = AllOutcomes>>,
   <<"x_outcome_display", \A x \in RS : x.text = OutcomeText(x.o) /\ x.status = GameStatusText(x.o)>>,
   <<"winner_and_force", \A x \in RS : x.winner = (IF x.o[1] = "win" THEN x.o[2] ELSE -1) /\ x.is_force = IsForcedOutcome(x.o)>>,
   <<"passes_filter", \A x \in RS : x.passes = <<OutcomePasses(x.o, "force"), OutcomePasses(x.o, "strict"), OutcomePasses(x.o, "relaxed")>>>>,
   <<"x_status_of_running_game", e.running = GameStatusText(<<"none">>)>>}

BBBinaryChecks(e) ==
  {<<"binary_set_algebra",
      \A i \in 1..Len(e.rows) : LET r == e.rows[i]  x == SeqToSet(r[1])  y == SeqToSet(r[2]) IN
         /\ SeqToSet(r[3]) = x \cup y /\ SeqToSet(r[4]) = x \cap y /\ SeqToSet(r[5]) = (x \ y) \cup (y \ x)
         /\ r[6] = r[3] /\ r[7] = r[4] /\ r[8] = r[5] /\ r[9] = (x = y)
         /\ Ascending(r[3]) /\ Ascending(r[4]) /\ Ascending(r[5])>>}

BBUnaryChecks(e) ==
  {<<"unary_set_operations",
      \A i \in 1..Len(e.rows) : LET r == e.rows[i]  x == SeqToSet(r.x)  c == r.c IN
         /\ SeqToSet(r.not) = Sq \ x /\ r.len = Cardinality(x) /\ r.empty = (x = {}) /\ r.nonempty = (x # {})
         /\ Ascending(r.iter) /\ SeqToSet(r.iter) = x /\ Len(r.iter) = Cardinality(x)
         /\ SeqToSet(r.flip_rank) = FlipRankSet(x) /\ SeqToSet(r.flip_file) = FlipFileSet(x)
         /\ r.has = (c \in x)
         /\ SeqToSet(r.with) = x \cup {c} /\ SeqToSet(r.without) = x \ {c}
         /\ r.set = r.with /\ r.unset = r.without /\ r.with2 = r.with /\ r.without2 = r.without
         /\ SeqToSet(r.shl) = ShlSet(x, r.by) /\ SeqToSet(r.shr) = ShrSet(x, r.by)
         /\ r.raw_rt /\ r.from_coord = <<c>>>>}

BBDepositChecks(e) ==
  {<<"deposit_bits",
      \A i \in 1..Len(e.rows) : LET r == e.rows[i] IN
         SeqToSet(r[3]) = Deposit(SeqToSet(r[1]), SeqToSet(r[2]))>>}

EventChecks(e) ==
  CASE e.ev = "q" -> QChecks(e)
    [] e.ev = "rawval" -> RawValChecks(e)
    [] e.ev = "magic" -> MagicChecks(e)
    [] e.ev = "leapers" -> LeaperChecks(e)
    [] e.ev = "between" -> BetweenChecks(e)
    [] e.ev = "sym" -> SymChecks(e)
    [] e.ev = "cap" -> CapChecks(e)
    [] e.ev = "t_index" -> TIndexChecks(e)
    [] e.ev = "t_values" -> TValuesChecks(e)
    [] e.ev = "t_chars" -> TCharsChecks(e)
    [] e.ev = "t_strings" -> TStringsChecks(e)
    [] e.ev = "wf_sweep" ->
         {<<"no_panic", e.panics = 0 /\ e.tried = 9 * 12 * 64 * 64>>,
          \* (which tuples count as well-formed is the library's own definition - documented, transcribed in
          \*  Rules!WellFormed - but no listed property pins it: a note)
          <<"x_move_new_accepts_exactly_the_well_formed_tuples",
              {MoveOfJson(e.accepted[i]) : i \in 1..Len(e.accepted)} = AllWellFormed>>}
    [] e.ev = "t_consts" -> TConstsChecks(e)
    [] e.ev = "t_moveapi" -> TMoveApiChecks(e)
    [] e.ev = "t_geometry" -> TGeometryChecks(e)
    [] e.ev = "bb_binary" -> BBBinaryChecks(e)
    [] e.ev = "bb_unary" -> BBUnaryChecks(e)
    [] e.ev = "bb_deposit" -> BBDepositChecks(e)
    [] e.ev = "bb_iter" -> BBIterChecks(e)
    [] e.ev = "t_outcomes" -> TOutcomesChecks(e)
    [] e.ev = "ucilist" -> UciListChecks(e)
    [] e.ev = "fen" -> FenChecks(e)
    [] e.ev = "fenparse" -> FenParseChecks(e)
    [] e.ev = "san" -> SanChecks(e)
    [] e.ev = "uci" -> UciChecks(e)
    [] e.ev = "parse" -> ParseChecks(e)
    [] IsSessionEvent(e) -> SessionChecks(e)
    [] e.ev = "hashpair" -> HashPairChecks(e)
    [] OTHER -> {<<"unknown_event", FALSE>>}

Init == l = 1 /\ live = <<>> /\ stk = <<>> /\ obs = <<>> /\ seen = <<>> /\ dead = FALSE
        /\ ch = <<>> /\ pobs = <<>>

Report(failed) ==
  IF failed = {} THEN TRUE
  ELSE PrintT("NONCONF " \o ToString(l) \o " " \o ToString(failed))  \* one atomic string: never line-wrapped

\* a pure event: no model state changes
StepPure(e) ==
  /\ Report(FailedOf(EventChecks(e)))
  /\ UNCHANGED <<live, stk, obs, seen, dead, ch, pobs>>

StepChain(e) ==
  /\ UNCHANGED <<live, stk, obs, seen>>
  /\ IF e.ev = "c_new" THEN
          /\ Report(FailedOf(ChainChecks(e)))
          /\ ch' = NewChain(Normalise(PosOfJson(e.pos))) /\ pobs' = e.obs /\ dead' = FALSE
     ELSE IF dead THEN UNCHANGED <<ch, pobs, dead>>
     ELSE LET failed == FailedOf(ChainChecks(e)) IN
          /\ Report(failed)
          /\ pobs' = e.obs
          /\ IF ChainDiverged(e, failed) THEN dead' = TRUE /\ ch' = ch
             ELSE dead' = FALSE /\ ch' = ChainNext(e)

StepSession(e) ==
  LET pos == PosOfJson(e.pos)
      ob == [pos |-> e.pos, der |-> e.der]
      addSeen == IF Key(pos) \in DOMAIN seen THEN seen ELSE seen @@ (Key(pos) :> e.der.hash)
      body ==
        IF e.ev = "reset" THEN
             /\ Report(FailedOf(SessionChecks(e)))
             /\ live' = Scratch(pos) /\ stk' = <<>> /\ obs' = ob
             /\ seen' = (Key(pos) :> e.der.hash) /\ dead' = FALSE
        ELSE IF dead \/ (e.ev = "unmake" /\ stk = <<>>) THEN
             \* diverged earlier in this session (already reported): skip until the next reset
             UNCHANGED <<live, stk, obs, seen, dead>>
        ELSE LET failed == FailedOf(SessionChecks(e)) IN
             /\ Report(failed)
             /\ dead' = ("pos_eq_model" \in failed \/ "unmake_move_matches" \in failed)
             /\ obs' = ob
             /\ seen' = addSeen
             /\ IF e.ev = "make"
                THEN LET m == MoveOfJson(e.m)  mk == DoMake(live, m) IN
                     /\ live' = (IF m = <<0, 0, 0, 0>> THEN [mk.board EXCEPT !.r.hm = pos.hm] ELSE mk.board)
                     /\ stk' = Append(stk, [m |-> m, u |-> mk.undo, before |-> live, obs |-> obs])
                ELSE LET t == stk[Len(stk)] IN
                     /\ live' = DoUnmake(live, t.m, t.u)
                     /\ stk' = SubSeq(stk, 1, Len(stk) - 1)
  IN body /\ UNCHANGED <<ch, pobs>>

Next ==
  /\ l <= Len(Recs)
  /\ l' = l + 1
  /\ LET e == Recs[l] IN
       IF IsSessionEvent(e) THEN StepSession(e)
       ELSE IF IsChainEvent(e) THEN StepChain(e)
       ELSE StepPure(e)

vars == <<l, live, stk, obs, seen, dead, ch, pobs>>
Spec == Init /\ [][Next]_vars

Accepted ==
  LET d == TLCGet("stats").diameter IN
  IF d = Len(Recs) + 1 THEN PrintT("TRACE-ACCEPTED " \o ToString(Len(Recs)))
  ELSE PrintT("TRACE-REJECTED consumed " \o ToString(d - 1) \o " of " \o ToString(Len(Recs))) /\ FALSE
=============================================================================
