------------------------------- MODULE Types -------------------------------
(***************************************************************************)
(* REFERENCE LAYER for the core value types and for bitboards-as-sets:     *)
(* index <-> value <-> character tables, accepted spellings, checked       *)
(* constructors, bit deposit, flips, shifts and the named constants.       *)
(* A bitboard is a SET OF SQUARES; bit i of the 64-bit word is square i.   *)
(***************************************************************************)
EXTENDS Notation, SequencesExt

\* characters
CellAsciiCh(cell) == IF cell = 0 THEN 46 ELSE CellCh[cell]
CellUtf8Ch(cell) ==
  CASE cell = 0 -> 46
    [] cell = 1 -> 9817 [] cell = 2 -> 9812 [] cell = 3 -> 9816 [] cell = 4 -> 9815 [] cell = 5 -> 9814 [] cell = 6 -> 9813
    [] cell = 7 -> 9823 [] cell = 8 -> 9818 [] cell = 9 -> 9822 [] cell = 10 -> 9821 [] cell = 11 -> 9820 [] cell = 12 -> 9819
ColorCh(c) == IF c = White THEN 119 ELSE 98
ColorLong(c) == IF c = White THEN <<119, 104, 105, 116, 101>> ELSE <<98, 108, 97, 99, 107>>

\* character readers (from_char): index or -1
FileOfChar(c) == IF IsFileCh(c) THEN FileOfCh(c) ELSE -1
RankOfChar(c) == IF IsRankCh(c) THEN RankOfCh(c) ELSE -1
CellOfChar(c) == IF c = 46 THEN 0 ELSE CellOfCh(c)
ColorOfChar(c) == IF c = 119 THEN 0 ELSE IF c = 98 THEN 1 ELSE -1

\* string readers (FromStr): value or -1
CoordOfText(t) == IF Len(t) = 2 /\ IsFileCh(t[1]) /\ IsRankCh(t[2]) THEN MkSq(FileOfCh(t[1]), RankOfCh(t[2])) ELSE -1
ColorOfText(t) == IF Len(t) = 1 THEN ColorOfChar(t[1]) ELSE -1
CellOfText(t) == IF Len(t) = 1 THEN CellOfChar(t[1]) ELSE -1

\* sets <-> ascending sequences
Ascending(q) == \A i \in 1..(Len(q) - 1) : q[i] < q[i + 1]
SortedSeq(S) == SetToSortSeq(S, LAMBDA a, b : a < b)
SetOfSeq(q) == {q[i] : i \in 1..Len(q)}

\* PDEP: the lowest bits of x (given as the set of its 1-bit positions) deposited into the squares of mask
Deposit(mask, xbits) == LET ms == SortedSeq(mask) IN {ms[i + 1] : i \in {i \in xbits : i < Len(ms)}}
FlipRankSet(S) == {MirrorV(s) : s \in S}
FlipFileSet(S) == {MirrorH(s) : s \in S}
ShlSet(S, by) == {s + by : s \in {s \in S : s + by <= 63}}
ShrSet(S, by) == {s - by : s \in {s \in S : s - by >= 0}}

\* named constants
RankSet(r) == {s \in Sq : RankOf(s) = r}
FileSet(f) == {s \in Sq : FileOf(s) = f}
DiagSet(i) == {s \in Sq : DiagIx(s) = i}
AntidiagSet(i) == {s \in Sq : AntidiagIx(s) = i}
LightSet == {s \in Sq : IsLight(s)}
DarkSet == {s \in Sq : IsDark(s)}

\* winner-swapped outcome (colour mirror)
SwapOutcome(o) == IF o[1] = "win" THEN <<"win", Other(o[2]), o[3]>> ELSE o
=============================================================================
