------------------------------- MODULE Types -------------------------------
(***************************************************************************)
(* REFERENCE LAYER for the core value types and for bitboards-as-sets:     *)
(* index <-> value <-> character tables, accepted spellings, checked       *)
(* constructors, bit deposit, flips, shifts and the named constants.       *)
(* A bitboard is a SET OF SQUARES; bit i of the 64-bit word is square i.   *)
(***************************************************************************)
EXTENDS Notation, SequencesExt

\* characters
CellAsciiCh(cell) == IF cell = 0 THEN 46 ELSE CellCh[cell]
CellUtf8Ch(cell) ==
  CASE cell = 0 -> 46
    [] cell = 1 -> 9817 [] cell = 2 -> 9812 [] cell = 3 -> 9816 [] cell = 4 -> 9815 [] cell = 5 -> 9814 [] cell = 6 -> 9813
    [] cell = 7 -> 9823 [] cell = 8 -> 9818 [] cell = 9 -> 9822 [] cell = 10 -> 9821 [] cell = 11 -> 9820 [] cell = 12 -> 9819
ColorCh(c) == IF c = White THEN 119 ELSE 98
ColorLong(c) == IF c = White THEN <<119, 104, 105, 116, 101>> ELSE <<98, 108, 97, 99, 107>>

\* character readers (from_char): index or -1
FileOfChar(c) == IF IsFileCh(c) THEN FileOfCh(c) ELSE -1
RankOfChar(c) == IF IsRankCh(c) THEN RankOfCh(c) ELSE -1
CellOfChar(c) == IF c = 46 THEN 0 ELSE CellOfCh(c)
ColorOfChar(c) == IF c = 119 THEN 0 ELSE IF c = 98 THEN 1 ELSE -1

\* string readers (FromStr): value or -1
CoordOfText(t) == IF Len(t) = 2 /\ IsFileCh(t[1]) /\ IsRankCh(t[2]) THEN MkSq(FileOfCh(t[1]), RankOfCh(t[2])) ELSE -1
ColorOfText(t) == IF Len(t) = 1 THEN ColorOfChar(t[1]) ELSE -1
CellOfText(t) == IF Len(t) = 1 THEN CellOfChar(t[1]) ELSE -1

\* sets <-> ascending sequences
Ascending(q) == \A i \in 1..(Len(q) - 1) : q[i] < q[i + 1]
SortedSeq(S) == SetToSortSeq(S, LAMBDA a, b : a < b)
SetOfSeq(q) == {q[i] : i \in 1..Len(q)}

\* PDEP: the lowest bits of x (given as the set of its 1-bit positions) deposited into the squares of mask
Deposit(mask, xbits) == LET ms == SortedSeq(mask) IN {ms[i + 1] : i \in {i \in xbits : i < Len(ms)}}
FlipRankSet(S) == {MirrorV(s) : s \in S}
FlipFileSet(S) == {MirrorH(s) : s \in S}
ShlSet(S, by) == {s + by : s \in {s \in S : s + by <= 63}}
ShrSet(S, by) == {s - by : s \in {s \in S : s - by >= 0}}

\* named constants
RankSet(r) == {s \in Sq : RankOf(s) = r}
FileSet(f) == {s \in Sq : FileOf(s) = f}
DiagSet(i) == {s \in Sq : DiagIx(s) = i}
AntidiagSet(i) == {s \in Sq : AntidiagIx(s) = i}
LightSet == {s \in Sq : IsLight(s)}
DarkSet == {s \in Sq : IsDark(s)}

\* RawBoard::pretty(style): 8 rank lines "<rank><frame><8 cells>\n", a frame line, the file line
PrettyText(pos, utf8) ==
  LET vert == IF utf8 THEN 9474 ELSE 124          \* "│" / "|"
      horz == IF utf8 THEN 9472 ELSE 45           \* "─" / "-"
      angle == IF utf8 THEN 9532 ELSE 43          \* "┼" / "+"
      ind == IF pos.side = White THEN (IF utf8 THEN 9675 ELSE 87) ELSE (IF utf8 THEN 9679 ELSE 66)   \* ○ W / ● B
      cellCh(c) == IF utf8 THEN CellUtf8Ch(c) ELSE CellAsciiCh(c)
      rankLine(r) == <<RankCh(r), vert>> \o [f \in 1..8 |-> cellCh(pos.cells[MkSq(f - 1, r)])] \o <<10>>
      RECURSIVE Ranks(_)
      Ranks(r) == IF r > 7 THEN <<>> ELSE rankLine(r) \o Ranks(r + 1)
  IN Ranks(0) \o <<horz, angle>> \o [i \in 1..8 |-> horz] \o <<10>>
     \o <<ind, vert>> \o [f \in 1..8 |-> FileCh(f - 1)] \o <<10>>

\* Display of Outcome / GameStatus (chess_base/src/types.rs), as code points
DrawText(r) ==
  CASE r = "stalemate" -> <<115, 116, 97, 108, 101, 109, 97, 116, 101>>   \* stalemate
    [] r = "insufficient" -> <<105, 110, 115, 117, 102, 102, 105, 99, 105, 101, 110, 116, 32, 109, 97, 116, 101, 114, 105, 97, 108>>   \* insufficient material
    [] r = "moves75" -> <<55, 53, 32, 109, 111, 118, 101, 32, 114, 117, 108, 101>>   \* 75 move rule
    [] r = "repeat5" -> <<102, 105, 118, 101, 102, 111, 108, 100, 32, 114, 101, 112, 101, 116, 105, 116, 105, 111, 110>>   \* fivefold repetition
    [] r = "moves50" -> <<53, 48, 32, 109, 111, 118, 101, 32, 114, 117, 108, 101>>   \* 50 move rule
    [] r = "repeat3" -> <<116, 104, 114, 101, 101, 102, 111, 108, 100, 32, 114, 101, 112, 101, 116, 105, 116, 105, 111, 110>>   \* threefold repetition
    [] r = "agreement" -> <<100, 114, 97, 119, 32, 98, 121, 32, 97, 103, 114, 101, 101, 109, 101, 110, 116>>   \* draw by agreement
    [] r = "unknown" -> <<100, 114, 97, 119, 32, 98, 121, 32, 117, 110, 107, 110, 111, 119, 110, 32, 114, 101, 97, 115, 111, 110>>   \* draw by unknown reason
LongColor(c) == IF c = White THEN <<119, 104, 105, 116, 101>> ELSE <<98, 108, 97, 99, 107>>
WinText(c, r) ==
  CASE r = "checkmate" -> LongColor(c) \o <<32, 99, 104, 101, 99, 107, 109, 97, 116, 101, 115>>
    [] r = "timeforfeit" -> LongColor(Other(c)) \o <<32, 102, 111, 114, 102, 101, 105, 116, 115, 32, 111, 110, 32, 116, 105, 109, 101>>
    [] r = "invalidmove" -> LongColor(Other(c)) \o <<32, 109, 97, 100, 101, 32, 97, 110, 32, 105, 110, 118, 97, 108, 105, 100, 32, 109, 111, 118, 101>>
    [] r = "engineerror" -> LongColor(Other(c)) \o <<32, 105, 115, 32, 97, 32, 98, 117, 103, 103, 121, 32, 99, 104, 101, 115, 115, 32, 101, 110, 103, 105, 110, 101>>
    [] r = "resign" -> LongColor(Other(c)) \o <<32, 114, 101, 115, 105, 103, 110, 115>>
    [] r = "abandon" -> LongColor(Other(c)) \o <<32, 97, 98, 97, 110, 100, 111, 110, 115, 32, 116, 104, 101, 32, 103, 97, 109, 101>>
    [] r = "unknown" -> LongColor(c) \o <<32, 119, 105, 110, 115, 32, 98, 121, 32, 117, 110, 107, 110, 111, 119, 110, 32, 114, 101, 97, 115, 111, 110>>
OutcomeText(o) == IF o[1] = "draw" THEN DrawText(o[2]) ELSE WinText(o[2], o[3])
GameStatusText(o) == IF o = <<"none">> THEN <<42>> ELSE IF o[1] = "draw" THEN <<49, 47, 50, 45, 49, 47, 50>> ELSE IF o[2] = White THEN <<49, 45, 48>> ELSE <<48, 45, 49>>
AllOutcomes == {<<"draw", r>> : r \in {"stalemate", "insufficient", "moves75", "repeat5", "moves50", "repeat3", "agreement", "unknown"}} \cup {<<"win", c, r>> : c \in {0, 1}, r \in {"checkmate", "timeforfeit", "invalidmove", "engineerror", "resign", "abandon", "unknown"}}

\* winner-swapped outcome (colour mirror)
SwapOutcome(o) == IF o[1] = "win" THEN <<"win", Other(o[2]), o[3]>> ELSE o

(***************************************************************************)
(* Value-level API of moves, rights and raw boards.                        *)
(***************************************************************************)
CastlingMoveOf(color, side) ==
  <<(IF side = SideK THEN KCastleK ELSE KCastleQ), MkCell(color, K), KingHome(color),
    MkSq((IF side = SideK THEN 6 ELSE 2), HomeRank(color))>>
KindPromotes(kind) == IF kind \in {KPromoN, KPromoB, KPromoR, KPromoQ} THEN PromoPiece(kind) ELSE -1
KindMatchesPiece(kind, piece) ==
  CASE kind = KNull -> FALSE
    [] kind = KSimple -> TRUE
    [] kind \in {KCastleK, KCastleQ} -> piece = K
    [] OTHER -> piece = P
UnsetColor(cr, color) == cr - (IF HasRight(cr, color, SideQ) THEN Pow2(RightBit(color, SideQ)) ELSE 0)
                            - (IF HasRight(cr, color, SideK) THEN Pow2(RightBit(color, SideK)) ELSE 0)
\* destination of a possible e.p. capture: same file as the mark, rank 6 / rank 3 of the mover (whatever the mark's rank)
EpDestOf(side, ep) == IF ep = -1 THEN -1 ELSE MkSq(FileOf(ep), EpDstRank(side))
BackRank == <<R, N, B, Q, K, B, N, R>>
InitialCells == [s \in Sq |->
  CASE RankOf(s) = 0 -> MkCell(Black, BackRank[FileOf(s) + 1])
    [] RankOf(s) = 1 -> MkCell(Black, P)
    [] RankOf(s) = 6 -> MkCell(White, P)
    [] RankOf(s) = 7 -> MkCell(White, BackRank[FileOf(s) + 1])
    [] OTHER -> 0]
InitialPos == [cells |-> InitialCells, side |-> White, castling |-> 15, ep |-> -1, hm |-> 0, fm |-> 1]
EmptyPos == [cells |-> [s \in Sq |-> 0], side |-> White, castling |-> 0, ep |-> -1, hm |-> 0, fm |-> 1]

=============================================================================
