#!/bin/bash
# every BENIGN change (/verif/seeded/B*_b*: a change that violates no listed property) against the quick checks of
# the properties named in its meta.json "areas": every one of them must stay quiet (exit 0, no VIOLATION).
# usage: benign.sh [glob] [outfile]     (MATRIX_P parallel runs, default 2)
pat=${1:-'B*_b*'}; outf=${2:-RESULTS_benign.txt}
out=/verif/seeded/$outf
tmp=$(mktemp -d)
(cd /verif/seeded && ls -d $pat) | xargs -P ${MATRIX_P:-2} -I{} sh -c 's={}; props=$(python3 -c "import json,sys; print(\",\".join(json.load(open(\"/verif/seeded/$s/meta.json\"))[\"areas\"]))"); python3 /verif/tools/mutest.py $s $props quick 2>&1 | sed -e "s/MISSED rc=0/QUIET rc=0/" -e "s/CAUGHT rc=1/FALSE-ALARM rc=1/" | cut -c1-300 > '$tmp'/$s.txt'
cat $tmp/*.txt > $out
echo "DONE $(date -u +%FT%TZ) repo=$(git -C /repo rev-parse --short HEAD) verif=$(git -C /verif rev-parse --short HEAD)" >> $out
rm -rf $tmp
