#!/bin/bash
# every seeded change matching $1 (default C*_m*) against the quick check of the property it targets
# (scratch worktrees, 3 in parallel); results to /verif/seeded/$2 (default RESULTS.txt)
pat=${1:-'C*_m*'}; outf=${2:-RESULTS.txt}
out=/verif/seeded/$outf
tmp=$(mktemp -d)
(cd /verif/seeded && ls -d $pat) | xargs -P ${MATRIX_P:-2} -I{} sh -c 's={}; p=${s%%_*}; python3 /verif/tools/mutest.py $s $p quick 2>&1 | grep -E "CAUGHT|MISSED|TOOLERR" -A1 | cut -c1-260 > '$tmp'/$s.txt'
cat $tmp/*.txt > $out
echo "DONE $(date -u +%FT%TZ) repo=$(git -C /repo rev-parse --short HEAD) verif=$(git -C /verif rev-parse --short HEAD)" >> $out
rm -rf $tmp
