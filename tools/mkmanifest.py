#!/usr/bin/env python3
"""Regenerates MANIFEST.json from the table below (single source of truth for the interface)."""
import json, subprocess
props = [json.loads(l) for l in open('/verif/properties.jsonl')]
ids = [p['id'] for p in props]
CLAIMED = {
 "C01": ("model_checking", "TLA+ reference rules (Rules!Legal and its four class restrictions) evaluated by TLC on every recorded position; trace validation of the five legal generators and of validate / is_legal_unchecked / try-make / make against it (multiset comparison: each move exactly once)", "5 C01"),
 "C03": ("model_checking", "TLC evaluates Rules!ApplyMove for every legal move of every recorded position and compares all six raw fields of the successor the library produced", "5 C03"),
 "C06": ("model_checking", "TLC compares semilegal generators (5), semi_validate over ALL well-formed tuples of both colours, partition laws and well-formedness with Rules!PseudoLegal / Rules!WellFormed", "5 C06"),
 "C07": ("model_checking", "TLC evaluates Rules!OutcomeAllowed / DrawSimpleAllowed / HasLegal on every recorded position and checks the library's outcome, draw reason and has_legal_moves against them", "5 C07"),
 "C16": ("model_checking", "TLC evaluates Rules!Attackers for 64 squares x 2 colours on every recorded position and compares is_cell_attacked, cell_attackers, is_check, checkers", "5 C16"),
 "C04": ("model_checking", "TLA+ transcription of do_make_move/do_unmake_move (spec/BoardImpl.tla): TLC checks on the bounded model MC_Impl that unmake inverts make in every component for every semilegal/null move, and validates recorded nested make/unmake walks of the real Board step by step against it (position, hash and all 16 sets restored)", "5 C04"),
 "C05": ("model_checking", "abstract-key Zobrist hash (XOR = symmetric difference) and occupancy sets in spec/BoardImpl.tla: TLC checks Derived = Scratch in every state of MC_Impl; every recorded state of the real Board is checked for hash = scratch hash, sets = sets rebuilt by the spec, key->hash functional/injective, plus single-feature hash pairs", "5 C05"),
}
T = "TLA+ specification + TLC; trace validation of recorded library executions against the spec"
CLAIMED.update({
 "C02": ("model_checking", "abstract move-chain machine (spec/Chain.tla) + reference rules: TLC validates recorded chain sessions in which every kind of move-like value is pushed; accepted iff it denotes a legal move (UCI: exact; SAN: sound against SanDescribe/SanResolve and complete on standard texts); after every call the position is Rules!IsValid, re-validates identically, the mover is not in check, and a refused push leaves the whole observation unchanged", "5 C02"),
 "C08": ("model_checking", "Notation!FenWrite and an independent Notation!FenRead over code points: TLC checks every recorded as_fen text is the canonical record, that the independent reader and the library's reader give back the position, for valid boards, unvalidated raw boards and accepted non-canonical / mutated texts (parse-format-parse stable)", "5 C08"),
 "C09": ("model_checking", "Notation!SanOf (FIDE Appendix C: letter, minimal disambiguation among LEGAL moves, capture, promotion, castling, + / #) and SanDescribe/SanResolve: TLC checks every recorded SAN text in both styles, distinctness, round trip, and for ~100-300 texts per position that parsing returns only the unique legal move agreeing with the text", "5 C09"),
 "C10": ("model_checking", "Notation!UciOf/UciParse and Rules!PseudoLegal/Legal: per position all 20 481 UCI strings are tried through five entry points; TLC checks the accepted (triple, move) sets equal exactly the pseudo-legal resp. legal moves, kinds included, round trip, and that 0000 is never playable", "5 C10"),
 "C11": ("model_checking", "Rules!Conditions / Normalise: TLC decides every recorded raw board: accepted iff no condition holds, the reported reason is one that holds, the result is exactly the normalised input, idempotent, derived state from scratch", "5 C11"),
 "C12": ("model_checking", "trace validation of 12 parsing entry points over exhaustively enumerated short strings (incl. 2/3/4-byte characters), grammar-directed mutations and long/random text: no spec action produces a panic; accepted values format back to themselves; exact accept languages for square, colour, cell, rights, UCI", "5 C12"),
 "C13": ("model_checking", "abstract move chain (spec/Chain.tla: start, moves, hist by Rules!ApplyMove, outcome): TLC validates random push/pop/outcome sessions step by step (position = replay of accepted moves, move list, refused push changes nothing, pop undoes the last push and clears the outcome, == decided by start/moves/outcome on rebuilt and perturbed chains)", "5 C13"),
 "C14": ("model_checking", "Chain!RepCount over the abstract history + Rules!OutcomeAllowed (forced > mandatory > claimable, reason must apply) + OutcomePasses: TLC validates calc_outcome / set_auto_outcome of shuffle-biased sessions, and the count() values seen by a spy repetition table", "5 C14"),
 "C15": ("model_checking", "Geometry!RookAttacks/BishopAttacks/KingSet/KnightSet/PawnAttackSet/Between/SameLine/SameDiag: TLC compares every table lookup - every subset of every relevant mask, with and without blockers outside the mask - with the geometric definition", "5 C15"),
 "C17": ("model_checking", "abstract walker (cursor over Chain!hist) and Chain!UciListText/StyledText: TLC validates random walker step sequences (returned board in full projection), the UCI list round trip and all 18 styled variants", "5 C17"),
 "C18": ("model_checking", "Rules!MirrorPos/MirrorMove and FlopPos/FlopMove: the mirrored position is built through the public API; TLC checks it is the spec's image, valid, and that legal moves, check and outcome correspond (winner swapped)", "5 C18"),
 "C19": ("exploration", "PARTIAL: on the position stream, on hill-climbed maximal-mobility positions and on boundary texts, |Rules!PseudoLegal| = length of the safe sink = length of the 256-entry MoveList, in a build with debug/overflow/unsafe-precondition checks and in an optimised build; an abort is reported through a write-ahead file. The universal bound (no valid position has more than 256 semilegal moves) is NOT decided", "5 C19 and 7"),
 "C20": ("model_checking", "spec/Types.tla (tables, sets of squares, Deposit, flips, shifts, named constants): TLC checks exhaustive conversions of every value of every finite type, accept languages of from_char/FromStr, bitboard algebra on all pairs/subsets of small universes + random sets, square arithmetic and every named constant", "5 C20"),
})
REASONS = {}
m = {
 "version": 1,
 "setup_cmd": "./check setup",
 "hooks": {
  "guard": "cargo feature verif_hooks (crate owlchess)",
  "enable": "harness/Cargo.toml depends on owlchess with features=[\"verif_hooks\"]; the baseline command does not enable it",
  "baseline_off_cmd": "cd /repo && cargo test --workspace --no-fail-fast --offline",
  "source_commits": [subprocess.run("git -C /repo log --format=%H --grep=verif_hooks", shell=True, capture_output=True, text=True).stdout.split()[-1]],
  "add_only": True,
 },
 "engines": [
  {"name": "I2S", "path": "harness/ + spec/Trace.tla", "serves_properties": sorted(CLAIMED), "kind_free_text": "implementation -> specification: the Rust harness drives the real library and records one ndjson event per call; TLC validates every event against the TLA+ specification (spec/Trace.tla, PROP selects the conjuncts)"},
  {"name": "MC", "path": "spec/*.tla", "serves_properties": sorted(CLAIMED), "kind_free_text": "TLC on the specification alone: oracle self-test (published perft counts, symmetries) and bounded models"},
 ],
 "checks": [],
 "not_applicable": [],
 "notes": "model-based verification with an explicit TLA+ specification; see DESIGN.md",
}
for i in ids:
    if i in CLAIMED:
        lvl, text, ref = CLAIMED[i]
        m["checks"].append({
          "property_id": i, "quick_cmd": f"./check {i} quick", "thorough_cmd": f"./check {i} thorough",
          "evidence_file": f"/verif/evidence/{i}.json", "replay_cmd_template": f"./check {i} --replay {{path}}",
          "engine": "I2S+S2I+MC",
          "level_claimed": {"category": lvl, "text": text, "design_ref": "DESIGN.md section " + ref},
          "level_note": "trusted: TLC 1.8.0, the TLA+ reference layer (pinned by spec/SelfTest.tla to published perft counts), the harness projection; bounded: the explored positions/histories, not all",
          "technique": T if i not in ("C04","C05","C01","C03","C06","C07","C16") else "TLA+ specification + TLC: bounded model checking of the refinement between the implementation-shaped and the reference layer, TLC-enumerated input families replayed into the code, trace validation of recorded executions",
        })
    else:
        m["not_applicable"].append({"property_id": i, "reason": REASONS.get(i, "check not built yet (work in progress; see DESIGN.md build order)")})
ALL = [c["property_id"] for c in m["checks"]]
m["engines"] = [
 {"name": "I2S", "path": "harness/ + spec/Trace.tla", "serves_properties": ALL,
  "kind_free_text": "implementation -> specification (trace validation): the Rust harness drives the real library and records one ndjson event per call (panics as data, write-ahead file for aborts); TLC validates every event against the TLA+ specification (spec/Trace.tla; env PROP selects the conjuncts of one property); stateful sessions (make/unmake, move chains, walkers) are followed by the specification's own actions"},
 {"name": "S2I", "path": "spec/Families.tla + spec/MC_Families.tla + spec/MC_ChainSim.tla + harness gen-from / exec-scripts",
  "serves_properties": ["C01","C02","C03","C04","C05","C06","C07","C08","C09","C10","C11","C13","C14","C16","C17","C18","C19"],
  "kind_free_text": "specification -> implementation: TLC enumerates 35 structured input families (states) and simulates the system specification (behaviours of push/pop/outcome/walker actions); every valid state / behaviour is replayed into the real code, the abstract state is compared after every action and the recorded execution is validated"},
 {"name": "MC", "path": "spec/MC_Impl.tla, spec/MC_FamImpl.tla, spec/MC_SanImpl.tla (+ MC_UciImpl.cfg), spec/MC_Chain.tla (+ MC_ChainProbe.cfg), spec/MC_Notation.tla, spec/SelfTest.tla",
  "serves_properties": ["C01","C02","C03","C04","C05","C06","C07","C08","C09","C10","C11","C13","C14","C17"],
  "kind_free_text": "TLC on the specification alone: bounded models checking that the implementation-shaped layer (make/unmake with incremental hash and sets, pin prefilter, generators, move validator, board validator, outcome calculation, SAN writer/reader, UCI readers, chain with repetition table and push_uci_list, lazily positioned walker) refines the reference layer; reachability probes against vacuity; notation layer self-consistency; oracle pinned to published perft counts"}]
json.dump(m, open("/verif/MANIFEST.json", "w"), indent=1)
print("claimed", len(m["checks"]), "not_applicable", len(m["not_applicable"]))
