#!/usr/bin/env python3
"""Regenerates MANIFEST.json from the table below (single source of truth for the interface)."""
import json, subprocess
props = [json.loads(l) for l in open('/verif/properties.jsonl')]
ids = [p['id'] for p in props]
CLAIMED = {
 "C01": ("model_checking", "TLA+ reference rules (Rules!Legal and its four class restrictions) evaluated by TLC on every recorded position; trace validation of the five legal generators and of validate / is_legal_unchecked / try-make / make against it (multiset comparison: each move exactly once)", "5 C01"),
 "C03": ("model_checking", "TLC evaluates Rules!ApplyMove for every legal move of every recorded position and compares all six raw fields of the successor the library produced", "5 C03"),
 "C06": ("model_checking", "TLC compares semilegal generators (5), semi_validate over ALL well-formed tuples of both colours, partition laws and well-formedness with Rules!PseudoLegal / Rules!WellFormed", "5 C06"),
 "C07": ("model_checking", "TLC evaluates Rules!OutcomeAllowed / DrawSimpleAllowed / HasLegal on every recorded position and checks the library's outcome, draw reason and has_legal_moves against them", "5 C07"),
 "C16": ("model_checking", "TLC evaluates Rules!Attackers for 64 squares x 2 colours on every recorded position and compares is_cell_attacked, cell_attackers, is_check, checkers", "5 C16"),
 "C04": ("model_checking", "TLA+ transcription of do_make_move/do_unmake_move (spec/BoardImpl.tla): TLC checks on the bounded model MC_Impl that unmake inverts make in every component for every semilegal/null move, and validates recorded nested make/unmake walks of the real Board step by step against it (position, hash and all 16 sets restored)", "5 C04"),
 "C05": ("model_checking", "abstract-key Zobrist hash (XOR = symmetric difference) and occupancy sets in spec/BoardImpl.tla: TLC checks Derived = Scratch in every state of MC_Impl; every recorded state of the real Board is checked for hash = scratch hash, sets = sets rebuilt by the spec, key->hash functional/injective, plus single-feature hash pairs", "5 C05"),
}
REASONS = {}
m = {
 "version": 1,
 "setup_cmd": "./check setup",
 "hooks": {
  "guard": "cargo feature verif_hooks (crate owlchess)",
  "enable": "harness/Cargo.toml depends on owlchess with features=[\"verif_hooks\"]; the baseline command does not enable it",
  "baseline_off_cmd": "cd /repo && cargo test --workspace --no-fail-fast --offline",
  "source_commits": [subprocess.run("git -C /repo log --format=%H --grep=verif_hooks", shell=True, capture_output=True, text=True).stdout.split()[-1]],
  "add_only": True,
 },
 "engines": [
  {"name": "I2S", "path": "harness/ + spec/Trace.tla", "serves_properties": sorted(CLAIMED), "kind_free_text": "implementation -> specification: the Rust harness drives the real library and records one ndjson event per call; TLC validates every event against the TLA+ specification (spec/Trace.tla, PROP selects the conjuncts)"},
  {"name": "MC", "path": "spec/*.tla", "serves_properties": sorted(CLAIMED), "kind_free_text": "TLC on the specification alone: oracle self-test (published perft counts, symmetries) and bounded models"},
 ],
 "checks": [],
 "not_applicable": [],
 "notes": "model-based verification with an explicit TLA+ specification; see DESIGN.md",
}
for i in ids:
    if i in CLAIMED:
        lvl, text, ref = CLAIMED[i]
        m["checks"].append({
          "property_id": i, "quick_cmd": f"./check {i} quick", "thorough_cmd": f"./check {i} thorough",
          "evidence_file": f"/verif/evidence/{i}.json", "replay_cmd_template": f"./check {i} --replay {{path}}",
          "engine": "I2S+MC",
          "level_claimed": {"category": lvl, "text": text, "design_ref": "DESIGN.md section " + ref},
          "level_note": "trusted: TLC 1.8.0, the TLA+ reference layer (pinned by spec/SelfTest.tla to published perft counts), the harness projection; bounded: the explored positions/histories, not all",
          "technique": "TLA+ specification + TLC; trace validation of recorded library executions against the spec",
        })
    else:
        m["not_applicable"].append({"property_id": i, "reason": REASONS.get(i, "check not built yet (work in progress; see DESIGN.md build order)")})
json.dump(m, open('/verif/MANIFEST.json', 'w'), indent=1)
print("claimed", len(m["checks"]), "not_applicable", len(m["not_applicable"]))
