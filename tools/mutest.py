#!/usr/bin/env python3
"""Runs checks against a seeded change WITHOUT touching /repo: the change is applied in a scratch worktree of
/repo HEAD and the checks are pointed at it (VERIF_REPO / VERIF_WORK / VERIF_EVID overrides in lib/vlib.py).
usage: mutest.py <seedname> <PROP>[,<PROP>...] [tier]   -> prints CAUGHT / MISSED / TOOLERR per property"""
import subprocess, sys, os, shutil
seed, props = sys.argv[1], sys.argv[2].split(",")
tier = sys.argv[3] if len(sys.argv) > 3 else "quick"
patch = f"/verif/seeded/{seed}/patch.diff"
wt = f"/tmp/mx_{seed}"
subprocess.run(f"git -C /repo worktree remove --force {wt}", shell=True, capture_output=True)
shutil.rmtree(wt, ignore_errors=True)
subprocess.run(f"git -C /repo worktree add -q --detach {wt} HEAD", shell=True, check=True)
try:
    subprocess.run(f"git -C {wt} apply {patch}", shell=True, check=True)
    # a snapshot of the framework, so that edits to /verif while this runs cannot disturb it
    snap = f"{wt}/verif_snapshot"
    subprocess.run(f"rsync -a --exclude work --exclude .git --exclude seeded --exclude evidence --exclude 'harness/target' /verif/ {snap}/",
                   shell=True, check=True)
    env = dict(os.environ, VERIF_REPO=wt, VERIF_WORK=f"{wt}/vwork", VERIF_EVID=f"{wt}/vevid")
    env.setdefault("VERIF_JOBS", "6")     # several of these run side by side
    for p in props:
        r = subprocess.run([f"{snap}/check", p, tier], cwd=snap, capture_output=True, text=True, env=env, stdin=subprocess.DEVNULL)
        if r.returncode == 2:
            # keep the evidence of a tool error, and try once more (two cargo builds started in the same second
            # have been seen to fail spuriously)
            os.makedirs("/verif/work", exist_ok=True)
            open(f"/verif/work/mutest_{seed}_{p}.log", "w").write(r.stdout[-20000:] + "\n---stderr---\n" + r.stderr[-20000:])
            r = subprocess.run([f"{snap}/check", p, tier], cwd=snap, capture_output=True, text=True, env=env, stdin=subprocess.DEVNULL)
        viol = [l for l in r.stdout.splitlines() if l.startswith("VIOLATION")]
        verdict = "CAUGHT" if r.returncode == 1 and viol else ("TOOLERR" if r.returncode == 2 else "MISSED")
        print(f"{seed} vs {p} ({tier}): {verdict} rc={r.returncode} violations={len(viol)}")
        for l in r.stdout.splitlines():
            if l.startswith("  (") or l.startswith("TOOL-ERROR"):
                print("   ", l[:300]); break
        for l in r.stdout.splitlines():
            if l.startswith("NOTE:"):
                print("   ", l[:300])
finally:
    subprocess.run(f"git -C /repo worktree remove --force {wt}", shell=True, capture_output=True)
    shutil.rmtree(wt, ignore_errors=True)
