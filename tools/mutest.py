#!/usr/bin/env python3
"""Runs checks against a seeded change: apply to /repo, run, ALWAYS undo.
usage: mutest.py <seedname> <PROP>[,<PROP>...] [tier]   -> prints CAUGHT / MISSED per property"""
import subprocess, sys, os
seed, props = sys.argv[1], sys.argv[2].split(",")
tier = sys.argv[3] if len(sys.argv) > 3 else "quick"
patch = f"/verif/seeded/{seed}/patch.diff"
st = subprocess.run("git -C /repo status --porcelain --untracked-files=no", shell=True, capture_output=True, text=True).stdout
if st.strip():
    sys.exit("refusing: /repo has uncommitted changes:\n" + st)
subprocess.run(f"git -C /repo apply {patch}", shell=True, check=True)
try:
    for p in props:
        r = subprocess.run(["/verif/check", p, tier], cwd="/verif", capture_output=True, text=True)
        viol = [l for l in r.stdout.splitlines() if l.startswith("VIOLATION")]
        verdict = "CAUGHT" if r.returncode == 1 and viol else ("TOOLERR" if r.returncode == 2 else "MISSED")
        print(f"{seed} vs {p} ({tier}): {verdict} rc={r.returncode} violations={len(viol)}")
        for l in r.stdout.splitlines():
            if l.startswith("  (") or l.startswith("TOOL-ERROR"):
                print("   ", l[:300]); break
finally:
    subprocess.run("git -C /repo checkout -- .", shell=True, check=True)
