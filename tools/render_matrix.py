#!/usr/bin/env python3
"""Renders seeded/RESULTS*.txt + seeded/*/meta.json into the table of DESIGN.md section 10.7."""
import json, glob, os, re
rows = {}
for f in sorted(glob.glob('/verif/seeded/RESULTS*.txt')):
    for line in open(f):
        m = re.match(r'(\S+) vs (\S+) \((\w+)\): (\w+) rc=\d+ violations=(\d+)', line)
        if m:
            rows[m.group(1)] = (m.group(2), m.group(4), m.group(5))
out = ["| seed | breaks | what the change does (from its meta.json) | own-property quick check |", "|---|---|---|---|"]
for d in sorted(glob.glob('/verif/seeded/C*_*m*')):
    s = os.path.basename(d)
    meta = json.load(open(d + '/meta.json'))
    summ = re.sub(r'\s+', ' ', meta.get('summary', ''))[:230].replace('|', '/')
    prop, verdict, n = rows.get(s, (s.split('_')[0], 'not run', '0'))
    out.append(f"| {s} | {prop} | {summ} | {verdict} ({n} violations) |")
txt = "\n".join(out)
p = '/verif/DESIGN.md'
d = open(p).read()
begin, end = "<!-- SEED_MATRIX_BEGIN -->", "<!-- SEED_MATRIX_END -->"
if "SEED_MATRIX_PLACEHOLDER" in d:
    d = d.replace("SEED_MATRIX_PLACEHOLDER", begin + "\n" + txt + "\n" + end)
else:
    d = d[:d.index(begin)] + begin + "\n" + txt + "\n" + d[d.index(end):]
open(p, 'w').write(d)
caught = sum(1 for v in rows.values() if v[1] == 'CAUGHT')
print(f"{len(rows)} results, {caught} caught")
