#!/bin/bash
# false-alarm sweep: every quick check under other seeds on the unchanged tree (evidence/work kept aside);
# one background process per seed; results in /verif/work/seedsweep_<seed>.txt
for seed in "$@"; do
  (
  out=/verif/work/seedsweep_$seed.txt
  : > $out
  for p in C01 C02 C03 C04 C05 C06 C07 C08 C09 C10 C11 C12 C13 C14 C15 C16 C17 C18 C19 C20; do
    r=$(cd /verif && VERIF_JOBS=6 VERIF_SEED=$seed VERIF_EVID=/tmp/sweep_evid_$seed VERIF_WORK=/tmp/sweep_work_$seed ./check $p quick 2>&1)
    rc=$?
    echo "seed=$seed $p rc=$rc $(echo "$r" | grep -E '^\[C' | cut -c1-160)" >> $out
    echo "$r" | grep -E "VIOLATION|TOOL-ERROR|  \(" | head -5 | cut -c1-300 >> $out
  done
  echo DONE >> $out
  rm -rf /tmp/sweep_evid_$seed /tmp/sweep_work_$seed
  ) &
done
wait
