#!/usr/bin/env python3
"""Confirms a seeded change: applies on /repo HEAD in a scratch worktree, existing suite passes with it,
the demonstration fails with it and passes without it.  usage: verify_seed.py <srcdir> <name> [--keep]
On success copies patch.diff, demo.rs, meta.json to /verif/seeded/<name>/ (patch regenerated against HEAD)."""
import json, os, shutil, subprocess, sys
src, name = sys.argv[1], sys.argv[2]
WT = "/tmp/vs_scratch"
def sh(cmd, cwd=WT, check=False):
    p = subprocess.run(cmd, shell=True, cwd=cwd, capture_output=True, text=True)
    if check and p.returncode != 0:
        print(p.stdout[-2000:], p.stderr[-2000:]); sys.exit(f"FAILED: {cmd}")
    return p
if not os.path.isdir(WT):
    subprocess.run(f"git -C /repo worktree add -q --detach {WT} HEAD", shell=True, check=True)
sh("git reset -q --hard; git checkout -q --detach $(git -C /repo rev-parse HEAD) && git checkout -- . && git clean -fdq -e target", check=True)
patch = os.path.join(src, "patch.diff")
p = sh(f"git apply --check {patch}")
if p.returncode != 0:
    p = sh(f"git apply -3 {patch}")
    if p.returncode != 0:
        print(p.stderr); sys.exit("patch does not apply to HEAD")
    sh("git reset -q")
else:
    sh(f"git apply {patch}", check=True)
newpatch = sh("git diff", check=True).stdout
t = sh("cargo test --workspace --offline 2>&1")
ok_suite = t.returncode == 0
os.makedirs(f"{WT}/chess/tests", exist_ok=True)
shutil.copy(os.path.join(src, "demo.rs"), f"{WT}/chess/tests/demo_seed.rs")
d1 = sh("cargo test --offline -p owlchess --test demo_seed 2>&1")
fails_with = d1.returncode != 0 and "error[" not in d1.stdout
sh("git checkout -- .", check=True)
d2 = sh("cargo test --offline -p owlchess --test demo_seed 2>&1")
passes_without = d2.returncode == 0
os.remove(f"{WT}/chess/tests/demo_seed.rs")
print(f"{name}: suite_passes_with_change={ok_suite} demo_fails_with={fails_with} demo_passes_without={passes_without}")
if not (ok_suite and fails_with and passes_without):
    print(t.stdout[-1500:] if not ok_suite else "", d1.stdout[-1500:] if not fails_with else "", d2.stdout[-1500:] if not passes_without else "")
    sys.exit(1)
dst = f"/verif/seeded/{name}"
os.makedirs(dst, exist_ok=True)
open(f"{dst}/patch.diff", "w").write(newpatch)
shutil.copy(os.path.join(src, "demo.rs"), f"{dst}/demo.rs")
meta = json.load(open(os.path.join(src, "meta.json")))
meta["confirmed"] = {"repo_head": subprocess.run("git -C /repo rev-parse --short HEAD", shell=True, capture_output=True, text=True).stdout.strip(),
  "ran": ["git apply patch.diff on a scratch worktree of /repo HEAD", "cargo test --workspace --offline -> pass",
          "cargo test -p owlchess --test demo_seed -> FAIL with the change", "same demo -> pass without the change"]}
json.dump(meta, open(f"{dst}/meta.json", "w"), indent=1)
print("kept as", dst)
